"""Per-property verification plans. Each plan(run, selftest) returns the process exit status."""
import json
import os

import vlib
from vlib import ToolError, log

PLANS = {}


def plan(pid):
    def deco(f):
        PLANS[pid] = f
        return f
    return deco


def replay_file(run, path):
    """Re-run one reported case (replay file written by a previous violation) in isolation."""
    payload = json.load(open(path))
    run.build()
    module = payload["module"]
    nd = run.path("one.ndjson")
    with open(nd, "w") as f:
        f.write(json.dumps(payload["case"]) + "\n")
    r = run.vh("replay", module, nd)
    log(json.dumps({"prop_mismatch": r.get("prop_mismatch"), "why": [m.get("why") for m in r.get("prop", [])]}, indent=1))
    bad = r.get("prop_mismatch", 0) > 0
    if bad:
        log("VIOLATION property=%s replay=%s" % (run.pid, path))
    run.cleanup()
    return 1 if bad else 0


def selftest_replay(run, module, tlc_out, mutate, what):
    """Binding demonstration, spec->impl: flip one expected field of one replay line; the harness must object."""
    first = None
    tag = '<<"REPLAY", '
    picked = 0
    with open(tlc_out, errors="replace") as f:
        for line in f:
            if line.startswith(tag):
                picked += 1
                case = json.loads(json.loads(line.strip()[len(tag):-2]))
                if mutate(case):
                    first = case
                    break
                if picked > 5000:
                    break
    if first is None:
        raise ToolError("selftest(%s): no replay line suitable for corruption" % what)
    nd = run.path("selftest.ndjson")
    with open(nd, "w") as f:
        f.write(json.dumps(first) + "\n")
    r = run.vh("replay", module, nd)
    if r.get("prop_mismatch", 0) + r.get("model_drift", 0) == 0:
        raise ToolError("selftest(%s): a corrupted expectation was NOT detected by the replay harness" % what)
    run.notes.append("selftest replay-corruption (%s): detected" % what)


# =====================================================================================================
# C04 - error-tree algebra
# =====================================================================================================

EA_CFG = """SPECIFICATION Spec
CONSTANTS
  Kinds = {kinds}
  Names = {names}
  Locs = {locs}
  Spans = {spans}
  MaxPool = {pool}
  MaxLeaves = {leaves}
  MaxLoc = {maxloc}
  MaxArity = {arity}
  MaxOps = {ops}
  EMIT = TRUE
CONSTRAINT DepthBound
INVARIANTS AllLaws Bounded
CHECK_DEADLOCK FALSE
"""

EA_TRACE_CFG = """SPECIFICATION TraceSpec
CONSTANTS
  Kinds = {"dup"}
  Names = {"x"}
  Locs = {"a", "b", "c", "d"}
  Spans = {1, 2, 3, 4, 5, 6}
  MaxPool = 6
  MaxLeaves = 12
  MaxLoc = 99
  MaxArity = 5
  EMIT = FALSE
INVARIANT AllLaws
POSTCONDITION TraceAccepted
CHECK_DEADLOCK FALSE
"""


def erralg_stage(run, selftest, which="C04"):
    q = run.tier == "quick"
    # 1. exhaustive design check + one REPLAY line per transition
    cfg = EA_CFG.format(kinds='{"dup", "unknown"}', names='{"x"}', locs='{"a", "b"}', spans="{1, 2}",
                        pool=3, leaves=3, maxloc=1, arity=3, ops=7 if q else 9)
    res = run.tlc("MC_ErrorAlgebra", cfg, "ea_exh", workers=4 if q else 8)
    run.require_tlc_ok(res, "ErrorAlgebra (exhaustive)")
    r = run.vh("replay", "erralg", res["out"])
    run.add_replay_result("erralg", r)
    if selftest:
        def flip(case):
            for o in case["obs"]:
                if o["len"] >= 2:
                    o["flat"][0], o["flat"][1] = o["flat"][1], o["flat"][0]
                    return o["flat"][0] != o["flat"][1]
            return False
        selftest_replay(run, "erralg", res["out"], flip, "swap two flattened leaves")
    os.remove(res["out"])
    # 2. beyond the exhaustive bounds: random walks of the same spec, wider alphabet, all ten kinds
    cfg = EA_CFG.format(kinds='{"custom", "dup", "missing", "unknown", "shape", "format", "type", "value"}',
                        names='{"x", "y"}', locs='{"a", "b", "c"}', spans="{1, 2, 3}",
                        pool=5, leaves=8, maxloc=3, arity=4, ops=40)
    res = run.tlc("MC_ErrorAlgebra", cfg, "ea_sim", workers=1, simulate=12 if q else 150, depth=30)
    run.exhaustive = False if not q else run.exhaustive
    run.require_tlc_ok(res, "ErrorAlgebra (simulate)")
    r = run.vh("replay", "erralg", res["out"])
    run.add_replay_result("erralg", r)
    os.remove(res["out"])
    # 3. impl -> spec: random histories on real values, validated by Trace_ErrorAlgebra
    tr = run.path("ea.ndjson")
    runs, ops = (40, 30) if q else (400, 40)
    rr = run.vh("record", "erralg", vlib.seed() + 1, runs, ops, tr)
    res = run.tlc("Trace_ErrorAlgebra", EA_TRACE_CFG, "ea_trace", workers=1, deque=True, env={"TRACE": tr})
    if not res["ok"]:
        tail = run.tlc_tail(res, 12)
        run.violation("trace:erralg", "recorded execution of darling::Error is not a behaviour of ErrorAlgebra: " + tail[-900:],
                      {"module": "erralg-trace", "tlc_tail": tail, "record_cmd": "vh record erralg %d %d %d" % (vlib.seed() + 1, runs, ops)})
    else:
        run.traces += rr["runs"]
        run.trace_events += rr["events"]
    if selftest:
        bad = run.path("ea_bad.ndjson")

        def mut(ev):
            for e in ev:
                if e["ev"] == "op" and e["op"]["name"] == "at" and e["pool"][e["op"]["i"] - 1]["loc"]:
                    loc = e["pool"][e["op"]["i"] - 1]["loc"]
                    loc.append(loc.pop(0) + "~")
                    return
            raise ToolError("selftest: no 'at' event to corrupt")
        vlib.corrupt_ndjson(tr, bad, mut)
        res = run.tlc("Trace_ErrorAlgebra", EA_TRACE_CFG, "ea_trace_bad", workers=1, deque=True, env={"TRACE": bad}, expect_fail=True)
        if res["ok"]:
            raise ToolError("selftest: a corrupted trace was accepted by Trace_ErrorAlgebra")
        run.notes.append("selftest trace-corruption (location appended instead of prepended): rejected")


@plan("C04")
def c04(run, selftest=True):
    run.build()
    erralg_stage(run, selftest)
    run.assumptions = [
        "leaf message texts are taken from darling's public constructors at run time",
        "the harness builds a pool state with multiple()/at()/with_span() in canonical order and checks the projection reproduces it",
        "spans are proc-macro2 fallback spans (span-locations), identified by line/column",
    ]
    return run.finish(
        "model_checking",
        "every transition of ErrorAlgebra.tla's builder machine within the bounds (pool<=3, leaves<=3, depth<=7/9) is replayed on real "
        "darling::Error values and len/Display/flatten/into_iter/syn::Error/write_errors compared with the spec's prediction; "
        "random walks (pool<=5, leaves<=8, 8 kinds) likewise; random real histories (10 kinds, arity<=5) are validated as behaviours "
        "of the spec by Trace_ErrorAlgebra with every law as invariant. A case is one (pre-state, operation) pair.")
