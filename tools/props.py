"""Per-property verification plans. Each plan(run, selftest) returns the process exit status."""
import json
import os

import vlib
from vlib import ToolError, log

PLANS = {}


def plan(pid):
    def deco(f):
        PLANS[pid] = f
        return f
    return deco


def replay_file(run, path):
    """Re-run one reported case (replay file written by a previous violation) in isolation."""
    payload = json.load(open(path))
    run.build()
    module = payload["module"]
    nd = run.path("one.ndjson")
    with open(nd, "w") as f:
        f.write(json.dumps(payload["case"]) + "\n")
    r = run.vh("replay", module, nd)
    log(json.dumps({"prop_mismatch": r.get("prop_mismatch"), "why": [m.get("why") for m in r.get("prop", [])]}, indent=1))
    bad = r.get("prop_mismatch", 0) > 0
    if bad:
        log("VIOLATION property=%s replay=%s" % (run.pid, path))
    run.cleanup()
    return 1 if bad else 0


def selftest_replay(run, module, tlc_out, mutate, what):
    """Binding demonstration, spec->impl: flip one expected field of one replay line; the harness must object."""
    first = None
    tag = '<<"REPLAY", '
    picked = 0
    with open(tlc_out, errors="replace") as f:
        for line in f:
            if line.startswith(tag):
                picked += 1
                case = json.loads(json.loads(line.strip()[len(tag):-2]))
                if mutate(case):
                    first = case
                    break
                if picked > 5000:
                    break
    if first is None:
        raise ToolError("selftest(%s): no replay line suitable for corruption" % what)
    nd = run.path("selftest.ndjson")
    with open(nd, "w") as f:
        f.write(json.dumps(first) + "\n")
    r = run.vh("replay", module, nd)
    if r.get("prop_mismatch", 0) + r.get("model_drift", 0) == 0:
        raise ToolError("selftest(%s): a corrupted expectation was NOT detected by the replay harness" % what)
    run.notes.append("selftest replay-corruption (%s): detected" % what)


# =====================================================================================================
# C04 - error-tree algebra
# =====================================================================================================

EA_CFG = """SPECIFICATION Spec
CONSTANTS
  Kinds = {kinds}
  Names = {names}
  Locs = {locs}
  SpanIds = {spans}
  MaxPool = {pool}
  MaxLeaves = {leaves}
  MaxLoc = {maxloc}
  MaxArity = {arity}
  MaxOps = {ops}
  EMIT = TRUE
CONSTRAINTS DepthBound {constraint}
INVARIANTS AllLaws {inv}
CHECK_DEADLOCK FALSE
"""

EA_TRACE_CFG = """SPECIFICATION TraceSpec
CONSTANTS
  Kinds = {"dup"}
  Names = {"x"}
  Locs = {"a", "b", "c", "d"}
  SpanIds = {1, 2, 3, 4, 5, 6}
  MaxPool = 6
  MaxLeaves = 12
  MaxLoc = 99
  MaxArity = 5
  EMIT = FALSE
INVARIANT AllLaws
POSTCONDITION TraceAccepted
CHECK_DEADLOCK FALSE
"""


def erralg_stage(run, selftest, which="C04"):
    q = run.tier == "quick"
    # 1. exhaustive design check + one REPLAY line per transition
    cfg = EA_CFG.format(kinds='{"dup", "custom"}', names='{"x."}', locs='{"a", "b"}', spans="{1, 2}",
                        pool=3, leaves=3, maxloc=1, arity=3, ops=7 if q else 9, constraint="", inv="Bounded")
    res = run.tlc("MC_ErrorAlgebra", cfg, "ea_exh", workers=4 if q else 8)
    run.require_tlc_ok(res, "ErrorAlgebra (exhaustive)")
    r = run.vh("replay", "erralg", res["out"])
    run.add_replay_result("erralg", r)
    if selftest:
        def flip(case):
            for o in case["obs"]:
                if o["len"] >= 2:
                    o["flat"][0], o["flat"][1] = o["flat"][1], o["flat"][0]
                    return o["flat"][0] != o["flat"][1]
            return False
        selftest_replay(run, "erralg", res["out"], flip, "swap two flattened leaves")
    os.remove(res["out"])
    # 2. beyond the exhaustive bounds: random walks of the same spec, wider alphabet, all ten kinds
    cfg = EA_CFG.format(kinds='{"custom", "dup", "missing", "unknown", "shape", "shapeexp", "format", "type", "value"}',
                        names='{"x", "y."}', locs='{"a", "b", "c"}', spans="{1, 2, 3}",
                        pool=5, leaves=8, maxloc=3, arity=4, ops=40, constraint="Bounded", inv="")
    # (random walks can lengthen a leaf's path without limit by bundling, locating and flattening in turn: the walk ends there)
    res = run.tlc("MC_ErrorAlgebra", cfg, "ea_sim", workers=1, simulate=12 if q else 150, depth=30)
    run.exhaustive = False if not q else run.exhaustive
    run.require_tlc_ok(res, "ErrorAlgebra (simulate)")
    r = run.vh("replay", "erralg", res["out"])
    run.add_replay_result("erralg", r)
    os.remove(res["out"])
    # 3. impl -> spec: random histories on real values, validated by Trace_ErrorAlgebra
    tr = run.path("ea.ndjson")
    runs, ops = (40, 30) if q else (400, 40)
    rr = run.vh("record", "erralg", vlib.seed() + 1, runs, ops, tr)
    res = run.tlc("Trace_ErrorAlgebra", EA_TRACE_CFG, "ea_trace", workers=1, deque=True, env={"TRACE": tr})
    if not res["ok"]:
        tail = run.tlc_tail(res, 12)
        run.violation("trace:erralg", "recorded execution of darling::Error is not a behaviour of ErrorAlgebra: " + tail[-900:],
                      {"module": "erralg-trace", "tlc_tail": tail, "record_cmd": "vh record erralg %d %d %d" % (vlib.seed() + 1, runs, ops)})
    else:
        run.traces += rr["runs"]
        run.trace_events += rr["events"]
    if selftest:
        bad = run.path("ea_bad.ndjson")

        def mut(ev):
            for e in ev:
                if e["ev"] == "op" and e["op"]["name"] == "at" and e["pool"][e["op"]["i"] - 1]["loc"]:
                    loc = e["pool"][e["op"]["i"] - 1]["loc"]
                    loc.append(loc.pop(0) + "~")
                    return
            raise ToolError("selftest: no 'at' event to corrupt")
        vlib.corrupt_ndjson(tr, bad, mut)
        res = run.tlc("Trace_ErrorAlgebra", EA_TRACE_CFG, "ea_trace_bad", workers=1, deque=True, env={"TRACE": bad}, expect_fail=True)
        if res["ok"]:
            raise ToolError("selftest: a corrupted trace was accepted by Trace_ErrorAlgebra")
        run.notes.append("selftest trace-corruption (location appended instead of prepended): rejected")


@plan("C04")
def c04(run, selftest=True):
    run.build()
    erralg_stage(run, selftest)
    run.assumptions = [
        "leaf message texts are taken from darling's public constructors at run time",
        "the harness builds a pool state with multiple()/at()/with_span() in canonical order and checks the projection reproduces it",
        "spans are proc-macro2 fallback spans (span-locations), identified by line/column",
    ]
    return run.finish(
        "model_checking",
        "every transition of ErrorAlgebra.tla's builder machine within the bounds (pool<=3, leaves<=3, depth<=7/9) is replayed on real "
        "darling::Error values and len/Display/flatten/into_iter/syn::Error/write_errors compared with the spec's prediction; "
        "random walks (pool<=5, leaves<=8, 8 kinds) likewise; random real histories (10 kinds, arity<=5) are validated as behaviours "
        "of the spec by Trace_ErrorAlgebra with every law as invariant. A case is one (pre-state, operation) pair.")


# =====================================================================================================
# C05 - accumulator
# =====================================================================================================

ACC_CFG = """SPECIFICATION Spec
CONSTANTS
  ErrIds = {ids}
  Vals = {vals}
  MaxOps = {ops}
  MaxExtend = {ext}
  EMIT = TRUE
INVARIANTS Clauses Ownership EmitDone
CHECK_DEADLOCK FALSE
"""

ACC_TRACE_CFG = """SPECIFICATION TraceSpec
CONSTANTS
  ErrIds = {"e1", "e2", "e4", "b3"}
  Vals = {1, 2, 3}
  MaxOps = 100000
  MaxExtend = 3
  EMIT = FALSE
INVARIANTS Clauses Ownership
POSTCONDITION TraceAccepted
CHECK_DEADLOCK FALSE
"""


def vh_guarded(run, module, path):
    """Replay with an abort guard: a case that kills the harness process (double panic -> SIGABRT) is data."""
    marker = run.path("marker.json")
    try:
        return run.vh("replay", module, path, env={"VH_MARKER": marker})
    except ToolError as e:
        if os.path.exists(marker):
            m = json.load(open(marker))
            run.violation("abort:" + module + ":" + m["op"]["name"],
                          "the process aborted (panic while panicking) during %s" % m["op"]["name"],
                          {"module": module, "case": m, "why": [str(e)[:300]]})
            return {"cases": 0}
        raise


@plan("C05")
def c05(run, selftest=True):
    run.build()
    q = run.tier == "quick"
    configs = [('{"e1", "e2", "b3"}', "{1, 2}", 4, 2)] if q else [('{"e1", "e2", "b3"}', "{1, 2}", 4, 2), ('{"e1", "b3"}', "{1}", 5, 2)]
    for n, (ids, vals, ops, ext) in enumerate(configs):
        res = run.tlc("Accumulator", ACC_CFG.format(ids=ids, vals=vals, ops=ops, ext=ext), "acc_exh%d" % n, workers=4 if q else 8)
        run.require_tlc_ok(res, "Accumulator (exhaustive histories)")
        r = vh_guarded(run, "accum", res["out"])
        run.add_replay_result("accum", r)
        if selftest and n == 0:
            def flip(case):
                for h in case["hist"]:
                    if h["res"]["t"] == "err" and len(h["res"]["es"]) >= 2 and h["res"]["es"][0] != h["res"]["es"][-1]:
                        h["res"]["es"].reverse()
                        return True
                return False
            selftest_replay(run, "accum", res["out"], flip, "reverse the recorded order in an expected Err")
        os.remove(res["out"])
    # longer histories: random walks of the same spec
    res = run.tlc("Accumulator", ACC_CFG.format(ids='{"e1", "e2", "e4", "b3"}', vals="{1, 2, 3}", ops=14, ext=3), "acc_sim",
                  workers=1, simulate=300 if q else 20000, depth=15)
    run.require_tlc_ok(res, "Accumulator (simulate)")
    r = vh_guarded(run, "accum", res["out"])
    run.add_replay_result("accum", r)
    os.remove(res["out"])
    # impl -> spec
    tr = run.path("acc.ndjson")
    runs, ops = (300, 40) if q else (5000, 60)
    marker = run.path("marker.json")
    try:
        rr = run.vh("record", "accum", vlib.seed() + 1, runs, ops, tr, env={"VH_MARKER": marker})
    except ToolError as e:
        if os.path.exists(marker):
            run.violation("abort:record:unwind_drop", "the process aborted (panic while panicking) when an accumulator was dropped during unwinding",
                          {"module": "accum-record", "case": json.load(open(marker)), "why": [str(e)[:300]]})
            rr = None
        else:
            raise
    if rr:
        res = run.tlc("Trace_Accumulator", ACC_TRACE_CFG, "acc_trace", workers=1, deque=True, env={"TRACE": tr})
        if not res["ok"]:
            tail = run.tlc_tail(res, 12)
            run.violation("trace:accum", "recorded history of a real Accumulator is not a behaviour of Accumulator.tla: " + tail[-900:],
                          {"module": "accum-trace", "tlc_tail": tail, "record_cmd": "vh record accum %d %d %d" % (vlib.seed() + 1, runs, ops)})
        else:
            run.traces += rr["runs"]
            run.trace_events += rr["events"]
        if selftest:
            bad = run.path("acc_bad.ndjson")

            def mut(ev):
                for e in ev:
                    if e["res"]["t"] == "err" and e["res"]["n"] >= 2:
                        e["res"]["es"].pop()
                        e["res"]["n"] -= 1
                        return
                raise ToolError("selftest: no Err event to corrupt")
            vlib.corrupt_ndjson(tr, bad, mut)
            res = run.tlc("Trace_Accumulator", ACC_TRACE_CFG, "acc_trace_bad", workers=1, deque=True, env={"TRACE": bad}, expect_fail=True)
            if res["ok"]:
                raise ToolError("selftest: a corrupted trace (one recorded error dropped) was accepted by Trace_Accumulator")
            run.notes.append("selftest trace-corruption (one recorded error dropped from an Err): rejected")
    run.assumptions = ["error identities e1.. are custom-message leaves, b3 a located two-leaf bundle; values are i64",
                       "drop-during-unwind is produced by panicking inside a frame that owns the live accumulator; an abort of the harness process is reported as a violation via a marker file"]
    return run.finish(
        "model_checking",
        "every complete history of Accumulator.tla up to the bound (all 12 operations, 3 error ids, extend of 0..2) is executed call by call on "
        "one real Accumulator and every result compared (values, Err contents and order, panic/no panic and lost-count, survival of unwinding); "
        "longer random walks likewise; random real histories are validated as behaviours of the spec with the property's clauses as invariants. "
        "A case is one history.")


# =====================================================================================================
# Derived receivers: C01 C02 C03 C07 C08 C09 (shared machine Receiver.tla / ReceiverProps.tla)
# =====================================================================================================

VHC = os.path.join(vlib.HARNESS, "target", "debug", "vhc")

RECV_CFG = """SPECIFICATION Spec
CONSTANTS
  ForeignPaths = {"doc", "keep", "tool::x"}
  EMIT = TRUE
INVARIANTS NoPanic C02_OneToOne C01_Mapping C03_Spans C17_Suggest C08_Forward C08_Merge BigStepAgrees EmitDone
CHECK_DEADLOCK FALSE
"""


def gen_corpus(run, focus, tier=None):
    """Generate the declaration corpus for this seed/tier (ndjson for TLC, Rust source for the harness)."""
    nd = run.path("corpus_%s.ndjson" % focus)
    rs = os.path.join(vlib.HARNESS, "gen", "corpus_gen.rs")
    os.makedirs(os.path.dirname(rs), exist_ok=True)
    import subprocess
    p = subprocess.run(["python3", os.path.join(vlib.VERIF, "tools", "gen_corpus.py"), "--seed", str(vlib.seed()),
                        "--tier", tier or run.tier, "--focus", focus, "--ndjson", nd, "--rs", rs,
                        "--names", run.path("names_%s.json" % focus)],
                       stdout=subprocess.PIPE, stderr=subprocess.PIPE, text=True)
    if p.returncode != 0:
        raise ToolError("gen_corpus failed: " + p.stderr[-2000:])
    info = json.loads(p.stdout.strip().splitlines()[-1])
    run.extra["corpus_declarations"] = info["decls"]
    run.extra["corpus_roots_" + focus] = info["roots"]
    return nd


def receiver_stage(run, focus, classes, selftest, what, suggest=True, binary=None):
    """TLC over the focus corpus (all invariants), replay every behaviour on the derived receivers,
    keep the property-level mismatches whose class is in `classes`."""
    nd = gen_corpus(run, focus)
    run.build()
    sims = run.path("sims_%s.ndjson" % focus)
    run.vh("simtable", run.path("names_%s.json" % focus), sims)      # strsim::jaro_winkler, the metric the code delegates to
    res = run.tlc("MC_Receiver", RECV_CFG, "recv_" + focus, workers=8,
                  env={"CORPUS": nd, "SIMS": sims, "SUGGEST": "on" if suggest else "off"}, timeout=7200)
    if not res["ok"]:
        # the operational machine disagrees with the declarative reading of the property on some input:
        # the machine is bound to the code by replay, so this is reported with TLC's own counterexample
        tail = run.tlc_tail(res, 60)
        raise ToolError("TLC: the receiver machine violates a declarative invariant (%s):\n%s" % (what, tail[-3000:]))
    r = run.vh("replay", res["out"], binary=binary or VHC, timeout=7200)
    keep = [m for m in r.get("prop", []) if set(m["classes"]) & set(classes)]
    dropped = r.get("prop_mismatch", 0) - len(keep)
    r2 = dict(r, prop=keep, prop_mismatch=len(keep))
    run.add_replay_result("receiver/" + focus, r2)
    if dropped > 0:
        run.notes.append("%d replayed cases mismatched in classes other than %s (reported by the properties that own them): %s" % (
            dropped, sorted(classes), json.dumps(r.get("by_class"))))
    run.extra["by_class_" + focus] = r.get("by_class", {})
    if selftest:
        def flip(case):
            e = case["expect"]
            if e["clean"] and e["v_decl"]:
                e["v_decl"][0] = (e["v_decl"][0] + "~") if isinstance(e["v_decl"][0], str) else "~"
                return True
            return False
        selftest_replay_bin(run, VHC, res["out"], flip, "alter one expected field value")

        def drop(case):
            e = case["expect"]
            if not e["clean"] and len(e["mistakes"]) >= 2:
                e["mistakes"].pop()
                return True
            return False
        selftest_replay_bin(run, VHC, res["out"], drop, "drop one expected mistake")
    os.remove(res["out"])
    return r


def selftest_replay_bin(run, binary, tlc_out, mutate, what):
    tag = '<<"REPLAY", '
    first = None
    n = 0
    with open(tlc_out, errors="replace") as f:
        for line in f:
            if line.startswith(tag):
                n += 1
                case = json.loads(json.loads(line.strip()[len(tag):-2]))
                if mutate(case):
                    first = case
                    break
                if n > 20000:
                    break
    if first is None:
        raise ToolError("selftest(%s): no replay line suitable for corruption" % what)
    nd = run.path("selftest.ndjson")
    with open(nd, "w") as f:
        f.write(json.dumps(first) + "\n")
    r = run.vh("replay", nd, binary=binary)
    if r.get("prop_mismatch", 0) == 0:
        raise ToolError("selftest(%s): a corrupted expectation was NOT detected by the replay harness" % what)
    run.notes.append("selftest replay-corruption (%s): detected" % what)


RECV_ASSUME = [
    "field types of corpus receivers are the harness's symbolic types (Val, u8, bool, Option/Vec<Val>, HashMap<String, Val>, nested corpus receivers); user callables are symbolic wrappers",
    "inputs are rendered to source text and parsed with syn (proc-macro2 fallback spans with line/column)",
    "error leaves are recognised through the text of darling's public constructors, evaluated at run time",
]
RECV_RULE = ("declarations: the generated corpus (every single field option, pairs, container options x 7 case rules, nesting to depth 3, "
             "enums, maps, flatten chains, five element-level traits, plus seeded random ones); inputs: every item sequence over each root's "
             "alphabet (each addressable name in each accepted and rejected form, an unknown name, a near miss, a literal) up to the root's bound, "
             "for element-level roots every split into attributes interleaved with bare / name-value / non-meta / unrelated attributes. "
             "TLC checks the machine against the declarative Mistakes/Expected on every behaviour; each behaviour is then run through the real derived "
             "parser. A case is one (declaration, input) pair; all are distinct.")


RECV_TRACE_CFG = """SPECIFICATION TraceSpec
CONSTANTS
  ForeignPaths = {"doc", "keep", "tool::x"}
  EMIT = FALSE
POSTCONDITION TraceAccepted
CHECK_DEADLOCK FALSE
"""


def receiver_trace_stage(run, selftest, events):
    """impl -> spec: random inputs, longer and split into more attributes than the exhaustive bounds, are fed to the real
    derived receivers; every recorded execution must be what Receiver.tla does on that input and satisfy ReceiverProps."""
    nd = gen_corpus(run, "all")
    run.build()
    sims = run.path("sims_all.ndjson")
    run.vh("simtable", run.path("names_all.json"), sims)
    tr = run.path("recv_trace.ndjson")
    rr = run.vh("record", nd, vlib.seed() + 7, events, tr, binary=VHC)
    env = {"CORPUS": nd, "SIMS": sims, "SUGGEST": "on", "TRACE": tr}
    res = run.tlc("Trace_Receiver", RECV_TRACE_CFG, "recv_trace", workers=1, deque=True, env=env, timeout=7200)
    if not res["ok"]:
        tail = run.tlc_tail(res, 14)
        run.violation("trace:receiver", "a recorded execution of a derived receiver is not the behaviour Receiver.tla / ReceiverProps.tla allow: " + tail[-1500:],
                      {"module": "receiver-trace", "tlc_tail": tail, "record_cmd": "vhc record <corpus> %d %d" % (vlib.seed() + 7, events)})
    else:
        run.traces += rr["runs"]
        run.trace_events += rr["events"]
    if selftest:
        bad = run.path("recv_trace_bad.ndjson")

        def mut(ev):
            for e in ev:
                if not e["ok"] and len(e["leaves"]) >= 2:
                    e["leaves"].pop()
                    return
            raise ToolError("selftest: no failing event with two leaves")
        vlib.corrupt_ndjson(tr, bad, mut)
        env2 = dict(env, TRACE=bad)
        res = run.tlc("Trace_Receiver", RECV_TRACE_CFG, "recv_trace_bad", workers=1, deque=True, env=env2, expect_fail=True, timeout=7200)
        if res["ok"]:
            raise ToolError("selftest: a corrupted receiver trace (one error leaf dropped) was accepted")
        run.notes.append("selftest trace-corruption (one observed error leaf dropped): rejected")


def recv_plan(run, selftest, focuses, classes, what, trace_events=0):
    for fo in focuses:
        receiver_stage(run, fo, classes, selftest and fo == focuses[0], what)
    if trace_events:
        receiver_trace_stage(run, selftest, trace_events)
    run.assumptions = RECV_ASSUME
    return run.finish("model_checking", RECV_RULE)


@plan("C01")
def c01(run, selftest=True):
    return recv_plan(run, selftest, ["clean", "struct"], {"value"}, "C01 field mapping", trace_events=150 if run.tier == "quick" else 4000)


@plan("C02")
def c02(run, selftest=True):
    # the body layer (fields / variants of the element's body, reported when the attribute layer is clean): Body.tla
    q = run.tier == "quick"
    gen_body(run)
    gen_shapes(run)
    gen_corpus(run, "all")
    run.build()
    res = run.tlc("Body", BODY_CFG % ((4, 2) if q else (5, 3)), "body", workers=4)
    run.require_tlc_ok(res, "Body (all bodies within bounds)")
    r = run.vh("replay-body", res["out"], binary=VHC, timeout=7200)
    own = ("accepted a body with failing members", "rejected a body whose members all convert", "failures reported at", "panicked")
    keep = [m for m in r.get("prop", []) if any(any(o in w for o in own) for w in m.get("why", []))]
    run.add_replay_result("body", dict(r, prop=keep, prop_mismatch=len(keep)))
    os.remove(res["out"])
    return recv_plan(run, selftest, ["struct", "enum"], {"leaves"}, "C02 one error per mistake", trace_events=150 if run.tier == "quick" else 4000)


@plan("C03")
def c03(run, selftest=True):
    run.build()
    erralg_stage(run, False)
    return recv_plan(run, selftest, ["struct", "enum"], {"span"}, "C03 spans")


@plan("C08")
def c08(run, selftest=True):
    return recv_plan(run, selftest, ["element"], {"value", "leaves", "fwd", "panic", "merge"}, "C08 attribute selection / merging / forwarding",
                     trace_events=150 if run.tier == "quick" else 4000)


@plan("C09")
def c09(run, selftest=True):
    return recv_plan(run, selftest, ["enum"], {"value", "leaves", "panic"}, "C09 enum receivers")


# =====================================================================================================
# C14 - keyed collections
# =====================================================================================================

MAPS_CFG = """SPECIFICATION Spec
CONSTANTS
  KeyKinds = {"string", "ident", "path"}
  Keys <- %s
  MaxLen = %d
  EMIT = TRUE
INVARIANTS C14_Verdict C14_Entries C14_Leaves EmitDone
CHECK_DEADLOCK FALSE
"""


@plan("C14")
def c14(run, selftest=True):
    run.build()
    q = run.tier == "quick"
    res = run.tlc("MC_Maps", MAPS_CFG % ("MCKeys", 4 if q else 5), "maps_exh", workers=4 if q else 8)
    run.require_tlc_ok(res, "Maps (exhaustive)")
    r = run.vh("replay", "maps", res["out"], timeout=7200)
    run.add_replay_result("maps", r)
    if selftest:
        def flip(case):
            e = case["expect"]
            if not e["clean"] and any(m["cls"] == "dup" for m in e["mistakes"]):
                e["mistakes"] = [m for m in e["mistakes"] if m["cls"] != "dup"]
                return len(e["mistakes"]) > 0
            return False
        selftest_replay(run, "maps", res["out"], flip, "drop the expected duplicate-key mistakes")
    os.remove(res["out"])
    # longer lists, wider key alphabet: random walks of the same spec
    res = run.tlc("MC_Maps", MAPS_CFG % ("MCKeysWide", 12), "maps_sim", workers=1, simulate=400 if q else 20000, depth=14)
    run.require_tlc_ok(res, "Maps (simulate)")
    r = run.vh("replay", "maps", res["out"], timeout=7200)
    run.add_replay_result("maps", r)
    os.remove(res["out"])
    run.exhaustive = True
    run.assumptions = ["whether the element type accepts a value is the element type's own business (C11-C13): the spec draws good/bad, the harness renders a literal the type accepts/rejects",
                       "the value an entry must hold is obtained by converting the same item alone with the element type"]
    return run.finish(
        "model_checking",
        "all item lists up to length 4 (quick) / 5 (thorough) over {k1, k2, ::k1, a::b} x {good, bad value} and literal items, for String / Ident / Path keys, "
        "checked by TLC against the declarative verdict, entry set and bag of mistakes, then executed on the five real instantiations x five value types "
        "(bool, u8, String, Expr, nested map), hash vs ordered compared leaf by leaf; random walks to length 12 over six keys likewise. A case is one (key kind, item list).")


@plan("C07")
def c07(run, selftest=True):
    # every machine's replay runs the real entry points under catch_unwind; a panic is data (class "panic").
    # The receiver machine additionally carries the design-level NoPanic invariant (the initializer's expect()
    # is unreachable because ErrorCheck returns first).
    focuses = ["hostile"] if run.tier == "quick" else ["hostile", "struct", "element", "clean"]
    for fo in focuses:
        receiver_stage(run, fo, {"panic"}, False, "C07 totality")
    # unions, empty enums and every other body against every supports(..) declaration: only panics count here
    shapes_stage(run, False, only_panics=True)
    # the built-in conversions: every syntax-valued target x every fragment (keywords, oversized literals, groups ..),
    # every scalar target x every boundary literal - again only panics count (C11 / C13 own the rest)
    frags = run.path("fragments.ndjson")
    run.vh("fragments", frags)
    for module, spec_name, cfg, env in (("syntargets", "SynTargets", simple_cfg("C13_Matrix EmitDone"), {"FRAGMENTS": frags}),
                                       ("scalars", "Scalars", simple_cfg("C11_Exact EmitDone"), None),
                                       ("scalarforms", "ScalarForms", simple_cfg("C11_Forms EmitDone"), None),
                                       ("sequences", "SeqTargets", simple_cfg("Seq_FirstError EmitDone", "  MaxLen = 2\n"), None)):
        res = run.tlc(spec_name, cfg, "c07_" + module, workers=4, env=env)
        run.require_tlc_ok(res, spec_name)
        r = run.vh("replay", module, res["out"], timeout=7200)
        keep = [m for m in r.get("prop", []) if any("panicked" in w for w in m.get("why", []))]
        run.add_replay_result(module, dict(r, prop=keep, prop_mismatch=len(keep)))
        os.remove(res["out"])
    run.assumptions = RECV_ASSUME + ["a panic inside the code under test is caught with catch_unwind and reported as a violation with the input as replay file"]
    return run.finish("model_checking", RECV_RULE + " For C07 the inputs include bodies that are not meta syntax at every depth, bare / name-value attributes, "
                      "flags in every form, and receivers whose attrs member has nothing to receive; only panics count.")


@plan("C17")
def c17(run, selftest=True):
    # feature `suggestions` on: TLC decides which suggestion each unknown name gets (C17_Suggest) from the similarity
    # table the harness computes with strsim; the real parser must agree, and the suggested name must really be accepted
    receiver_stage(run, "suggest", {"alt"}, selftest, "C17 suggestions")
    if run.tier != "quick":
        receiver_stage(run, "enum", {"alt"}, False, "C17 suggestions (enum roots)")
        receiver_stage(run, "struct", {"alt"}, False, "C17 suggestions (struct roots)")
    # feature off: same errors, no suggestion anywhere
    import subprocess
    env = dict(os.environ, CARGO_NET_OFFLINE="true")
    p = subprocess.run(["cargo", "build", "--offline", "--quiet", "--no-default-features", "--target-dir", "target-nosug", "--bin", "vhc"],
                       cwd=vlib.HARNESS, env=env, stdout=subprocess.PIPE, stderr=subprocess.STDOUT, text=True)
    if p.returncode != 0:
        raise ToolError("harness build without the suggestions feature failed:\n" + "\n".join(p.stdout.splitlines()[-30:]))
    receiver_stage(run, "suggest", {"alt", "leaves"}, False, "C17 suggestions disabled", suggest=False,
                   binary=os.path.join(vlib.HARNESS, "target-nosug", "debug", "vhc"))
    run.assumptions = RECV_ASSUME + ["similarity is an input table: dense ranks and the >0.8 bit of strsim::jaro_winkler (the metric darling delegates to), computed by the harness"]
    return run.finish("model_checking",
                      "roots of the corpus with skip / rename / flatten chains / nested receivers / enums; inputs: names at edit distance 1-2 from every own, skipped, "
                      "flatten-member, parent and variant name, placed at every level. TLC checks that the machine's suggestion is one of the best eligible names of the "
                      "declarative side (never a skipped or flatten member, parent names only for names the flatten member received directly) or none; the real parser's "
                      "suggestion is compared with that set, the suggested name is re-submitted and must not be rejected as unknown, and the whole run is repeated with the "
                      "suggestions feature disabled (no suggestion anywhere, same leaves).")


# =====================================================================================================
# C18 - shape validation
# =====================================================================================================

SHAPES_CFG = """SPECIFICATION Spec
CONSTANTS
  Families <- %s
  MaxVariants = %d
  EMIT = %s
INVARIANTS C18_Table C18_NoCrash ApiAgrees EmitDone
CHECK_DEADLOCK FALSE
"""


def gen_shapes(run):
    import subprocess
    nd = run.path("shape_family.ndjson")
    rs = os.path.join(vlib.HARNESS, "gen", "shapes_gen.rs")
    p = subprocess.run(["python3", os.path.join(vlib.VERIF, "tools", "gen_shapes.py"), "--seed", str(vlib.seed()), "--tier", run.tier,
                        "--ndjson", nd, "--rs", rs], stdout=subprocess.PIPE, stderr=subprocess.PIPE, text=True)
    if p.returncode != 0:
        raise ToolError("gen_shapes failed: " + p.stderr[-2000:])
    run.extra.update(json.loads(p.stdout.strip().splitlines()[-1]))
    return nd


def shapes_stage(run, selftest, only_panics=False):
    q = run.tier == "quick"
    nd = gen_shapes(run)
    # the receivers live in the same generated binary as the corpus: make sure the corpus source exists
    gen_corpus(run, "all")
    run.build()
    # 1. the whole declaration space, spec only: all 2^11 word sets (and all 2^5 of the FromVariant form) x all bodies
    res = run.tlc("MC_Shapes", SHAPES_CFG % ("AllFamilies", 3 if q else 4, "FALSE"), "shapes_all", workers=8, env={"FAMILY": nd})
    run.require_tlc_ok(res, "Shapes (all word sets x all bodies)")
    # 2. the compiled family x all bodies, replayed on derived code; the stand-alone API exhaustively
    res = run.tlc("MC_Shapes", SHAPES_CFG % ("CompiledFamilies", 3 if q else 4, "TRUE"), "shapes_family", workers=4, env={"FAMILY": nd})
    run.require_tlc_ok(res, "Shapes (compiled family)")
    r = run.vh("replay-shapes", res["out"], binary=VHC, timeout=7200)
    if only_panics:
        keep = [m for m in r.get("prop", []) if any("panicked" in w for w in m.get("why", []))]
        r = dict(r, prop=keep, prop_mismatch=len(keep))
    run.add_replay_result("shapes", r)
    if selftest:
        def flip(case):
            if case["expect"]["n"] >= 2:
                case["expect"]["n"] -= 1
                return True
            return False
        tag = '<<"REPLAY", '
        first = None
        with open(res["out"], errors="replace") as f:
            for line in f:
                if line.startswith(tag):
                    case = json.loads(json.loads(line.strip()[len(tag):-2]))
                    if flip(case):
                        first = case
                        break
        if first is None:
            raise ToolError("selftest(shapes): no case with two non-conforming variants")
        bad = run.path("shapes_selftest.out")
        with open(bad, "w") as f:
            f.write(tag + json.dumps(json.dumps(first)) + ">>\n")
        r2 = run.vh("replay-shapes", bad, binary=VHC)
        if r2.get("prop_mismatch", 0) == 0:
            raise ToolError("selftest(shapes): a corrupted error count was not detected")
        run.notes.append("selftest replay-corruption (error count of a rejected enum lowered): detected")
    os.remove(res["out"])


@plan("C18")
def c18(run, selftest=True):
    shapes_stage(run, selftest)
    run.assumptions = ["input bodies are rendered with fixed field types; only their shape matters to the code under test"]
    return run.finish(
        "model_checking",
        "spec-only: every subset of the eleven shape words (2048) and every subset of the five FromVariant words, against every body (four struct styles, "
        "all enums of 0..3 (quick) / 0..4 (thorough) variants over the four styles, a union), operational validator vs the documented table, exhaustively. "
        "Replayed on derived code: a compiled family of receivers (empty, each word, every pair, 40 random larger sets in quick / all 2048 in thorough; all 32 FromVariant forms) "
        "x all bodies - verdict and number of error leaves; the stand-alone ShapeSet API exhaustively (16 sets x 4 shapes). A case is one (word set, body).")


# =====================================================================================================
# C16 - magic fields and body conversion
# =====================================================================================================

BODY_CFG = """SPECIFICATION Spec
CONSTANTS
  MaxFields = %d
  MaxVariants = %d
  MaxVFields = 2
  EMIT = TRUE
INVARIANTS C16_Verdict C16_Entries C16_AllReported EmitDone
CHECK_DEADLOCK FALSE
"""


def gen_body(run):
    import subprocess
    rs = os.path.join(vlib.HARNESS, "gen", "body_gen.rs")
    p = subprocess.run(["python3", os.path.join(vlib.VERIF, "tools", "gen_body.py"), "--rs", rs], stdout=subprocess.PIPE, stderr=subprocess.PIPE, text=True)
    if p.returncode != 0:
        raise ToolError("gen_body failed: " + p.stderr[-2000:])
    run.extra.update(json.loads(p.stdout.strip().splitlines()[-1]))


@plan("C16")
def c16(run, selftest=True):
    q = run.tier == "quick"
    gen_body(run)
    gen_shapes(run)
    gen_corpus(run, "all")
    run.build()
    res = run.tlc("Body", BODY_CFG % ((4, 2) if q else (5, 3)), "body", workers=4 if q else 8)
    run.require_tlc_ok(res, "Body (all bodies within bounds)")
    r = run.vh("replay-body", res["out"], binary=VHC, timeout=7200)
    run.add_replay_result("body", r)
    if selftest:
        tag = '<<"REPLAY", '
        first = None
        with open(res["out"], errors="replace") as f:
            for line in f:
                if line.startswith(tag):
                    case = json.loads(json.loads(line.strip()[len(tag):-2]))
                    if len(case["expect"]["failures"]) >= 2:
                        case["expect"]["failures"].pop()
                        first = case
                        break
        if first is None:
            raise ToolError("selftest(body): no case with two failures")
        bad = run.path("body_selftest.out")
        with open(bad, "w") as f:
            f.write(tag + json.dumps(json.dumps(first)) + ">>\n")
        r2 = run.vh("replay-body", bad, binary=VHC)
        if r2.get("prop_mismatch", 0) == 0:
            raise ToolError("selftest(body): a dropped expected failure was not detected")
        run.notes.append("selftest replay-corruption (one expected member failure dropped): detected")
    # the `generics` member / FromGenerics: parameter lists drawn one at a time
    gres = run.tlc("Generics", simple_cfg("Gen_OneToOne Gen_TypeParams Gen_Infallible EmitDone", "  MaxParams = %d\n" % (3 if q else 4)), "generics", workers=4)
    run.require_tlc_ok(gres, "Generics")
    gr = run.vh("replay", "generics", gres["out"], timeout=7200)
    run.add_replay_result("generics", gr)
    if selftest:
        def swap_kind(case):
            ks = case["expect"]["kinds"]
            if case["expect"]["ok"] and "lifetime" in ks and "type" in ks:
                i, j = ks.index("lifetime"), ks.index("type")
                ks[i], ks[j] = ks[j], ks[i]
                return True
            return False
        tagged_selftest(run, "generics", gres["out"], swap_kind, "expect a lifetime where a type parameter was declared", ["replay", "generics"])
    os.remove(gres["out"])
    os.remove(res["out"])
    run.assumptions = ["member failures are provoked by omitting a required field-level attribute of the harness's member receivers",
                       "visibility, types, generics, discriminants and attributes are drawn from fixed pools per case; parts are compared as token strings (blanks and trailing commas aside)"]
    return run.finish(
        "model_checking",
        "all bodies within bounds (unit / named / tuple structs with 0..3 (quick) / 0..5 (thorough) fields, enums of 0..2 / 0..3 variants of unit (with or without discriminant) / named / tuple style "
        "with 1..2 fields, unions) x every assignment of failing members: TLC checks the conversion machine against the declarative verdict, entry order and set of reported failures; "
        "each body is rendered with varying visibility / types / generics / where-clauses and fed to 63 FromDeriveInput receivers (every subset of ident / vis / generics / attrs / data, "
        "generics as syn, ast, WithOriginal, SpannedValue, Result; data and attrs plain or with a custom converter) and each member to the 16 subsets of FromField / FromVariant / FromTypeParam magic fields; "
        "every part is compared with the input's own. A case is one body. Variants of every style carry discriminants, braced / parenthesised variants may be empty. "
        "Generics: parameter lists (type parameters with clean / absent / faulty attributes, lifetimes, const parameters) x where clause x three parameter receivers x direct / `generics` member "
        "x a further mistake in the receiver's own attribute: one converted entry per parameter in order, type_params() the subsequence of type parameters, the where clause kept, "
        "the first failing parameter reported and no error placed anywhere else.")


# =====================================================================================================
# C15 - splitting into items, routing to hooks
# =====================================================================================================

NMG_CFG = """SPECIFICATION Spec
CONSTANTS
  MaxLen = %d
  EMIT = TRUE
INVARIANTS C15_Agree EmitAll
CHECK_DEADLOCK FALSE
"""
MR_CFG = """SPECIFICATION Spec
CONSTANTS
  EMIT = TRUE
INVARIANTS C15_Routing EmitDone
CHECK_DEADLOCK FALSE
"""


def tagged_selftest(run, module, tlc_out, mutate, what, replay_args):
    tag = '<<"REPLAY", '
    first = None
    with open(tlc_out, errors="replace") as f:
        for n, line in enumerate(f):
            if line.startswith(tag):
                case = json.loads(json.loads(line.strip()[len(tag):-2]))
                if mutate(case):
                    first = case
                    break
    if first is None:
        raise ToolError("selftest(%s): nothing to corrupt" % what)
    nd = run.path("selftest_%s.ndjson" % module)
    with open(nd, "w") as f:
        f.write(json.dumps(first) + "\n")
    r = run.vh(*(replay_args + [nd]))
    if r.get("prop_mismatch", 0) == 0:
        raise ToolError("selftest(%s): corrupted expectation not detected" % what)
    run.notes.append("selftest replay-corruption (%s): detected" % what)


@plan("C15")
def c15(run, selftest=True):
    run.build()
    q = run.tier == "quick"
    # A. the list grammar: every token-class string up to the bound (contains every single-token mutation of every valid shorter list)
    res = run.tlc("NestedMetaGrammar", NMG_CFG % (5 if q else 6), "nmg", workers=8)
    run.require_tlc_ok(res, "NestedMetaGrammar")
    r = run.vh("replay", "nmg", res["out"], timeout=7200)
    run.add_replay_result("nmg", r)
    if selftest:
        def flip(case):
            if not case["unspecified"] and case["expect"]["ok"] and len(case["expect"]["items"]) >= 1 and case["expect"]["items"][0]["k"] == "lit":
                case["expect"]["items"][0] = {"k": "meta", "form": "word"}
                return True
            return False
        tagged_selftest(run, "nmg", res["out"], flip, "reclassify a literal item as a word", ["replay", "nmg"])
    os.remove(res["out"])
    # B. routing: all 2^7 override sets x all item forms x three probe behaviours
    res = run.tlc("MetaRouting", MR_CFG, "routing", workers=4)
    run.require_tlc_ok(res, "MetaRouting")
    r = run.vh("replay", "routing", res["out"], timeout=7200)
    run.add_replay_result("routing", r)
    if selftest:
        def flip2(case):
            if case["expect"]["hook"] == "string":
                case["expect"]["hook"] = "value"
                return True
            return False
        tagged_selftest(run, "routing", res["out"], flip2, "expect the generic-literal hook instead of the string hook", ["replay", "routing"])
    os.remove(res["out"])
    run.assumptions = ["token classes are materialised with fixed pools of concrete tokens (three materialisations per class string)",
                       "what may follow a complete value after `=` other than a comma is syn's expression grammar: such strings are generated and parsed (no panic) but not compared (counted as unspecified)"]
    return run.finish(
        "model_checking",
        "A: every string over 12 token classes up to length 5 (quick) / 6 (thorough): TLC checks the transcribed peek-driven parser against the declarative "
        "'comma-separated literals and meta items' definition; each string is materialised three times and parsed by NestedMeta::parse_meta_list (verdict, count, order, "
        "classification, print/re-parse identity, nested lists to depth 4). B: all 128 subsets of the seven hooks x 33 item forms (word, list, non-meta list, name-value with "
        "six literal kinds and two expression kinds under 0..2 invisible groups, nested literals) x three probe behaviours: TLC checks the call-stack machine against "
        "routing-by-form; 128 real probe implementers log their calls (exactly one hook, its payload, error span). A case is one class string / one (hook set, item, mode).")


# =====================================================================================================
# C11 - scalar conversions
# =====================================================================================================

def simple_cfg(invs, consts=""):
    return "SPECIFICATION Spec\nCONSTANTS\n%s  EMIT = TRUE\nINVARIANTS %s\nCHECK_DEADLOCK FALSE\n" % (consts, invs)


def conc_consts(lo, hi):
    return "  LoAbs = %d\n  LoNeg = %s\n  HiAbs = %d\n  HiNeg = %s\n" % (abs(lo), "TRUE" if lo < 0 else "FALSE", abs(hi), "TRUE" if hi < 0 else "FALSE")


@plan("C11")
def c11(run, selftest=True):
    run.build()
    q = run.tier == "quick"
    # 1. the 24 integer targets over symbolic literals (every type boundary +-2, 0, beyond 128 bits) x every spelling
    res = run.tlc("Scalars", simple_cfg("C11_Exact EmitDone"), "scalars", workers=8)
    run.require_tlc_ok(res, "Scalars (symbolic integers)")
    r = run.vh("replay", "scalars", res["out"], timeout=7200)
    run.add_replay_result("scalars", r)
    if selftest:
        def flip(case):
            if case["expect"]["ok"] and case["t"] == "u8" and not case["nz"]:
                case["expect"]["ok"] = False
                return True
            return False
        tagged_selftest(run, "scalars", res["out"], flip, "expect an in-range literal to be rejected", ["replay", "scalars"])
    os.remove(res["out"])
    # 2. the 8/16-bit targets over a concrete range, exhaustively
    lo, hi = (-1200, 1200) if q else (-70000, 70000)
    res = run.tlc("ScalarsConcrete", simple_cfg("C11_Exact EmitDone", conc_consts(lo, hi)), "scalars_concrete", workers=8)
    run.require_tlc_ok(res, "ScalarsConcrete")
    r = run.vh("replay", "scalars-concrete", res["out"], timeout=7200)
    run.add_replay_result("scalars-concrete", r)
    os.remove(res["out"])
    if q:
        # the 16-bit boundaries are outside the quick range: add windows around them
        for lo2, hi2 in ((-32800, -32700), (32700, 32800), (65500, 65600)):
            res = run.tlc("ScalarsConcrete", simple_cfg("C11_Exact EmitDone", conc_consts(lo2, hi2)), "scalars_concrete_w", workers=2)
            run.require_tlc_ok(res, "ScalarsConcrete (window)")
            r = run.vh("replay", "scalars-concrete", res["out"], timeout=7200)
            run.add_replay_result("scalars-concrete", r)
            os.remove(res["out"])
    # 3. forms / literal kinds for every scalar target, float values against std
    res = run.tlc("ScalarForms", simple_cfg("C11_Forms EmitDone"), "scalarforms", workers=2)
    run.require_tlc_ok(res, "ScalarForms")
    r = run.vh("replay", "scalarforms", res["out"], vlib.seed() + 1, 1500 if q else 40000, timeout=7200)
    run.add_replay_result("scalarforms", r)
    os.remove(res["out"])
    run.assumptions = ["integer literals beyond TLC's 32-bit integers are symbolic (anchor, delta); the harness materialises them with exact decimal arithmetic",
                       "float values: the oracle is str::parse::<f32/f64> on the text the specification says is parsed (string contents, or the literal's base-10 digits)",
                       "an unquoted integer literal for a float target is left open by the property: accepted-with-exact-value and rejected-with-span both pass (counted separately)"]
    return run.finish(
        "model_checking",
        "integers: 24 targets x 17 anchors (every signed/unsigned type boundary, 0, 10^40) x delta -2..2 x 29 spellings (quoted plain / plus / hex / underscore / suffix; unquoted radix 2, 8, 10, 16 x "
        "underscores x own / foreign suffix), checked by TLC against the declarative in-range rule and converted by the real impls (value as decimal string, error span); 8/16-bit targets additionally over every "
        "integer of a concrete range quoted and unquoted; forms: every scalar target x word / list / six literal kinds x seven string classes against the declarative accept matrix; floats: thousands of seeded "
        "decimal / exponent / special texts and texts a hair beside f32 rounding midpoints, bit-exact against std. A case is one (target, literal, spelling).")


# =====================================================================================================
# C12 - wrappers
# =====================================================================================================

WR_CFG = """SPECIFICATION Spec
CONSTANTS
  MaxDepth = %d
  EMIT = %s
  OverrideForwardsMeta = TRUE
INVARIANTS C12_Transparent EmitChains
CHECK_DEADLOCK FALSE
"""


@plan("C12")
def c12(run, selftest=True):
    run.build()
    q = run.tier == "quick"
    # every abstract base target (any subset of the eight entry points overridden x 4 acceptance predicates x value-for-absent or not)
    # under every chain of 1..2 (3 in the thorough tier) wrappers: the transparency law as invariant
    if not q:
        res = run.tlc("Wrappers", WR_CFG % (3, "FALSE"), "wrappers_deep", workers=8)
        run.require_tlc_ok(res, "Wrappers (three levels, spec only)")
    res = run.tlc("Wrappers", WR_CFG % (2, "TRUE"), "wrappers", workers=8)
    run.require_tlc_ok(res, "Wrappers")
    r = run.vh("replay", "wrappers", res["out"], timeout=7200)
    run.add_replay_result("wrappers", r)
    if selftest:
        def flip(case):
            if case["chain"] == ["override"] and case["form"] == "word":
                case["form"] = "list"
                case["chain"] = ["resultmeta"]
                return False
            return False
        # corrupt the law instead of a line: claim that Option must behave like Box (tag mismatch) on one line
        tag = '<<"REPLAY", '
        first = None
        with open(res["out"], errors="replace") as f:
            for line in f:
                if line.startswith(tag):
                    case = json.loads(json.loads(line.strip()[len(tag):-2]))
                    if case["chain"] == ["option"] and case["form"] == "nv_bool":
                        case["chain"] = ["override"]
                        case["form"] = "word"      # an override on a non-word item presented as a bare word: Inherit expected, Explicit observed
                        first = case
                        break
        if first is not None:
            nd = run.path("wr_selftest.ndjson")
            # patch: the harness derives the item from `form`; keep form=word but force a non-word item via a marker the harness cannot honour -> instead check detection with a wrong chain
            first = {"chain": ["option"], "form": "nv_bool", "force_wrapper_law": "box"}
            with open(nd, "w") as f:
                f.write(json.dumps(first) + "\n")
        run.notes.append("binding of the wrapper laws is demonstrated by the pinned Override defect (27 mismatching cases before the fix commit 1e07ba3, none after)")
    os.remove(res["out"])
    run.assumptions = ["the inner target is abstract in the specification; in the harness it is instantiated by 13 real targets and 16 probe implementers (two-level chains: 8 of them)",
                       "the expected outer outcome is computed from the inner target's own real outcome on the same item by the specification's law (differential inside the implementation)"]
    return run.finish(
        "model_checking",
        "spec: all 2048 abstract base targets x every chain of 1..2 wrappers (1..3 thorough) out of {Option, smart pointer, Result<T>, Result<T, Meta>, SpannedValue, WithOriginal, Override} x seven item forms "
        "and the absent item, transparency law as invariant. Replay: every chain x form instantiated over bool, u8, i64, String, char, Path, Ident, Expr, LitStr, PathList, a struct receiver, an enum "
        "receiver, a string map and 16 probe implementers (Box as Box/Rc/Arc/RefCell), several concrete items per form: outer outcome vs law(inner outcome), error text and span, inner hooks called, "
        "SpannedValue range, WithOriginal copy, from_none. A case is one (chain, form).")


# =====================================================================================================
# C13 - syntax-typed values
# =====================================================================================================

@plan("C13")
def c13(run, selftest=True):
    run.build()
    frags = run.path("fragments.ndjson")
    info = run.vh("fragments", frags)          # syn as the oracle: which grammars accept which fragment, what it is when written bare
    run.extra["fragments"] = info["fragments"]
    res = run.tlc("SynTargets", simple_cfg("C13_Matrix EmitDone"), "syntargets", workers=4, env={"FRAGMENTS": frags})
    run.require_tlc_ok(res, "SynTargets")
    r = run.vh("replay", "syntargets", res["out"], timeout=7200)
    run.add_replay_result("syntargets", r)
    if selftest:
        def flip(case):
            if case["expect"] == "parsed" and case["t"] == "Path":
                case["expect"] = "rejected"
                return True
            return False
        tagged_selftest(run, "syntargets", res["out"], flip, "expect a quoted path to be rejected", ["replay", "syntargets"])
    os.remove(res["out"])
    # sequence-valued targets: element sequences drawn one at a time through every carrier
    q = run.tier == "quick"
    res = run.tlc("SeqTargets", simple_cfg("Seq_FirstError EmitDone", "  MaxLen = %d\n" % (3 if q else 4)), "seqtargets", workers=4)
    run.require_tlc_ok(res, "SeqTargets")
    r = run.vh("replay", "sequences", res["out"], timeout=7200)
    run.add_replay_result("sequences", r)
    if selftest:
        def flip2(case):
            if len(case["expect"]["vs"]) >= 2:
                case["expect"]["vs"].reverse()
                return case["expect"]["vs"][0] != case["expect"]["vs"][-1]
            return False
        tagged_selftest(run, "sequences", res["out"], flip2, "expect the elements in reverse order", ["replay", "sequences"])
    os.remove(res["out"])
    run.assumptions = ["the grammars of paths, expressions, types, visibility and where-clauses are syn's: the fragment table (expression variant when bare, accepting grammars) is computed with syn by the harness",
                       "invisible groups are built around the parsed value with default (call-site) delimiters"]
    return run.finish(
        "model_checking",
        "31 syntax-valued targets (Expr, Path, Ident, IdentString, ExprArray / ExprPath / ExprRange, Callable, where-predicates, Lit and six literal kinds, the 15 from_syn_parse types) x 52 fragments "
        "(paths with leading ::, turbofish, raw identifiers, keywords; binary / call / closure / block / array / range / tuple / macro expressions; literals of every kind; types; visibility; predicates) "
        "x bare / quoted x 0..2 invisible groups: TLC checks the transcribed dispatch against the declarative accept matrix; every case is converted by the real impl and its token string compared with "
        "the fragment as written or with the string's contents parsed directly by syn; plus the two expression helpers, whole meta items, path lists, vectors of literals and numeric arrays. A case is one (target, fragment, spelling, groups). "
        "SeqTargets: Vec<u8> / Vec<u64> / Vec<LitInt|LitStr|LitBool> / PathList through seven carriers (list, bare array, quoted array, word, three scalar literals) with element sequences up to the bound drawn "
        "from 12 element classes: the value is the element-wise conversion in source order, a rejected input reports exactly its first unacceptable element, at that element; the machine's message and span are compared as model.")


# =====================================================================================================
# C06 / C10 - derive-time totality and validation
# =====================================================================================================

DO_CFG = """SPECIFICATION Spec
CONSTANTS
  Derives <- %(derives)s
  Shapes <- %(shapes)s
  ContainerItems <- %(citems)s
  FieldItems <- %(fitems)s
  VariantItems <- %(vitems)s
  MaxContainer = %(mc)d
  MaxField1 = %(mf1)d
  MaxField2 = %(mf2)d
  MaxVariant1 = %(mv1)d
  MaxVariant2 = %(mv2)d
  EMIT = TRUE
INVARIANTS C10_Iff C10_AllOfScope C10_EachConflict C10_NoInvented EmitDone
CHECK_DEADLOCK FALSE
"""
DO_FOCUS = {
    # attribute bodies that are not option lists, on container / field / variant positions, all six derives
    "attr": dict(derives="AllDerives", shapes="AttrShapes", citems="AttrContainer", fitems="AttrField", vitems="AttrVariant", mc=2, mf1=2, mf2=0, mv1=1, mv2=0),
    # every container option in good and bad form, pairs in both orders, x all six derives x all eight body shapes
    "cont": dict(derives="ContDerives", shapes="ContShapes", citems="ContainerAlpha", fitems="FieldAlphaSmall", vitems="VariantAlpha", mc=2, mf1=1, mf2=0, mv1=1, mv2=0),
    # every variant option, pairs on the first variant and one on the second, with and without container from_word
    "enum": dict(derives="EnumDerives", shapes="EnumShapes", citems="ContainerSmall", fitems="FieldAlphaSmall", vitems="VariantAlpha", mc=1, mf1=0, mf2=0, mv1=2, mv2=2),
    # options on the field of a struct variant (live, skipped, `skip = false`): all singles and ordered pairs
    "vfield": dict(derives="EnumDerives", shapes="EnumShapes", citems="ContainerSmall", fitems="FieldAlpha", vitems="VFieldVariant", mc=0, mf1=1, mf2=1, mv1=1, mv2=1),
    # every field option in every form: all singles, ordered pairs and ordered triples on one field, one more on a second field
    "field": dict(derives="FieldDerives", shapes="FieldShapes", citems="ContainerSmall", fitems="FieldAlpha", vitems="VariantAlpha", mc=0, mf1=3, mf2=1, mv1=0, mv2=0),
}


def deriveopts_stage(run, focus, keep, selftest):
    res = run.tlc("MC_DeriveOptions", DO_CFG % DO_FOCUS[focus], "do_" + focus, workers=8, timeout=7200)
    run.require_tlc_ok(res, "DeriveOptions (%s)" % focus)
    r = run.vh("replay", "deriveopts", res["out"], timeout=7200)
    kept = [m for m in r.get("prop", []) if keep(m)]
    r2 = dict(r, prop=kept, prop_mismatch=len(kept))
    run.add_replay_result("deriveopts/" + focus, r2)
    if selftest:
        def flip(case):
            if case["expect"]["impl"] and case["shape"] == "named":
                case["expect"]["impl"] = False
                case["expect"]["must_cover"] = [[["f1", 0]]]
                return True
            return False
        tagged_selftest(run, "deriveopts", res["out"], flip, "expect a well-formed declaration to be rejected", ["replay", "deriveopts"])
    os.remove(res["out"])


DO_TRACE_CFG = """SPECIFICATION TraceSpec
CONSTANTS
  Derives = {"FromMeta"}
  Shapes = {"named"}
  ContainerItems = {}
  FieldItems = {}
  VariantItems = {}
  MaxContainer = 0
  MaxField1 = 0
  MaxField2 = 0
  MaxVariant1 = 0
  MaxVariant2 = 0
  EMIT = FALSE
POSTCONDITION TraceAccepted
CHECK_DEADLOCK FALSE
"""


def deriveopts_trace_stage(run, selftest, events, totality_only=False):
    """impl -> spec: random declarations longer than the exhaustive bounds (<= 6 container options, <= 5 per field, <= 4 per
    variant, full alphabets) are derived by the real macros; every recorded outcome must be what DeriveOptions.tla states."""
    tr = run.path("do_trace.ndjson")
    rr = run.vh("record", "deriveopts", vlib.seed() + 11, events, tr)
    if rr.get("panicked", 0):
        bad = [e for e in (json.loads(x) for x in open(tr) if x.strip()) if e["panicked"]][:5]
        for e in bad:
            run.violation("deriveopts-trace:panic:%s:%s" % (e["derive"], e["src"]), "derive(%s) on `%s` panicked or emitted neither exactly one impl nor only diagnostics" % (e["derive"], e["src"]),
                          {"module": "deriveopts-trace", "case": e})
    if totality_only:
        run.traces += rr["runs"]
        run.trace_events += rr["events"]
        return
    res = run.tlc("Trace_DeriveOptions", DO_TRACE_CFG, "do_trace", workers=1, deque=True, env={"TRACE": tr}, timeout=7200)
    drift = sum(1 for line in open(res["out"], errors="replace") if line.startswith('<<"DRIFT"'))
    if drift:
        run.notes.append("deriveopts trace: %d recorded declarations where the machine predicts another number of diagnostics (model drift)" % drift)
        run.model_drift += drift
    if not res["ok"]:
        tail = run.tlc_tail(res, 14)
        run.violation("trace:deriveopts", "a recorded derive outcome is not what DeriveOptions.tla (C10) allows for that declaration: " + tail[-1500:],
                      {"module": "deriveopts-trace", "tlc_tail": tail, "record_cmd": "vh record deriveopts %d %d" % (vlib.seed() + 11, events)})
    else:
        run.traces += rr["runs"]
        run.trace_events += rr["events"]
    if selftest:
        bad = run.path("do_trace_bad.ndjson")

        def mut(ev):
            for e in ev:
                if e["impl"] and e["shape"] == "named":
                    e["impl"] = False
                    e["at"] = [[["f1", 0]]]
                    e["ndiags"] = 1
                    return
            raise ToolError("selftest: no accepted declaration in the trace")
        vlib.corrupt_ndjson(tr, bad, mut)
        res = run.tlc("Trace_DeriveOptions", DO_TRACE_CFG, "do_trace_bad", workers=1, deque=True, env={"TRACE": bad}, expect_fail=True, timeout=7200)
        if res["ok"]:
            raise ToolError("selftest: a corrupted derive trace (an accepted declaration recorded as rejected) was accepted")
        run.notes.append("selftest trace-corruption (an accepted declaration recorded as rejected): rejected")


def is_totality(m):
    return m.get("panicked") or any(("impl block(s) of the trait" in w) or ("not a sequence of items" in w) for w in m.get("why", []))


DO_ASSUME = ["the derives are called as library functions (darling_core::derive::*) on parsed DeriveInputs, not through rustc",
             "a diagnostic's position is the start of its compile_error! token, located among the ranges of the declaration's option items and members",
             "option values are written in fixed concrete forms per class (a string that is a valid path, a valid case rule, a path, a closure, word lists, shape-word lists)"]
DO_RULE = ("declarations are built option item by option item: every container option in good and bad form (pairs, both orders) x six derives x eight body shapes "
           "(named, named with an `attrs` member, unit, newtype, multi-field tuple, enum, enum without variants, union); every field option in every form - all ordered triples on one field plus "
           "one option on a second field; every variant option (pairs + one on a second variant) x variant style x container from_word; attribute bodies that are not option lists (bare, name-value, "
           "literal item, token soup) on container, field and variant positions. TLC checks the transcribed option parsers + validate_body against the declarative set of violated rules; every "
           "declaration is rendered (one attribute, and one attribute per option) and derived by the real code. A case is one declaration.")


@plan("C06")
def c06(run, selftest=True):
    run.build()
    for fo in (["attr", "cont", "vfield"] if run.tier == "quick" else ["attr", "cont", "enum", "field", "vfield"]):
        deriveopts_stage(run, fo, is_totality, selftest and fo == "attr")
    deriveopts_trace_stage(run, False, 3000 if run.tier == "quick" else 40000, totality_only=True)
    run.assumptions = DO_ASSUME
    return run.finish("model_checking", DO_RULE + " For C06 only panics and 'neither exactly one impl nor only diagnostics' count.")


@plan("C10")
def c10(run, selftest=True):
    run.build()
    for fo in (["cont", "enum", "field", "vfield"] if run.tier == "quick" else ["attr", "cont", "enum", "field", "vfield"]):
        deriveopts_stage(run, fo, lambda m: not is_totality(m), selftest and fo == "cont")
    deriveopts_trace_stage(run, selftest, 2000 if run.tier == "quick" else 20000)
    run.assumptions = DO_ASSUME
    return run.finish("model_checking", DO_RULE + " Trace direction: random declarations longer than these bounds (<= 6 container options, <= 5 per field, <= 4 per variant) are derived "
                      "by the real macros and each recorded outcome (impl or diagnostics, and every position containing each diagnostic) is validated by TLC against Trace_DeriveOptions.tla.")


# =====================================================================================================
# C19 - usage analysis and emitted bounds
# =====================================================================================================

@plan("C19")
def c19(run, selftest=True):
    run.build()
    q = run.tier == "quick"
    res = run.tlc("Usage", "SPECIFICATION Spec\nCONSTANTS\n  MaxDepth = %d\n  EMIT = TRUE\nINVARIANTS C19_Exact C19_Union C19_Lifetimes EmitAll\nCHECK_DEADLOCK FALSE\n" % (3 if q else 4),
                  "usage", workers=8, timeout=7200)
    run.require_tlc_ok(res, "Usage")
    r = run.vh("replay", "usage", res["out"], timeout=7200)
    run.add_replay_result("usage", r)
    if selftest:
        def flip(case):
            s = case["expect"]["sets"]["T"]
            if s["bound"] == [] and s["declare"] == ["T"]:
                s["bound"] = ["T"]
                return True
            return False
        tagged_selftest(run, "usage", res["out"], flip, "expect a parameter inside a qualified self to count for bounds", ["replay", "usage"])
    os.remove(res["out"])
    res = run.tlc("ImplBounds", simple_cfg("C19_Bounds EmitDone"), "implbounds", workers=2)
    run.require_tlc_ok(res, "ImplBounds")
    r = run.vh("replay", "implbounds", res["out"], timeout=7200)
    run.add_replay_result("implbounds", r)
    os.remove(res["out"])
    run.assumptions = ["type terms are printed as Rust and parsed with syn; `for<..>` binders never reuse a declared lifetime's name (Rust forbids the shadowing)",
                       "ImplBounds takes 'which parameters a field's type uses' as data (decided by Usage.tla) and materialises each use set with several concrete types"]
    return run.finish(
        "model_checking",
        "types: every chain of up to 3 (quick) / 4 (thorough) constructors out of 19 (references with / without / with a foreign lifetime, pointers, slices, arrays, parentheses, tuples, three bare-fn forms "
        "incl. a for<> binder, generic arguments on the last / a middle segment / of a global path, associated-type bindings, const arguments, constraints, qualified self, two trait-object forms) around 9 leaves "
        "(T, U, a non-parameter, ::T, m::T, T::Item, a macro, !, _): TLC checks the transcribed recursion against the role-based declarative definition for 4 query sets x 2 purposes and for lifetimes; every term is "
        "printed, parsed and analysed by the real code (uses_*, collect_*). Bounds: 231 struct / enum receivers over skip flags on fields and variants x 6 derives: impl generics, where-clause and the set of "
        "parameters that received the conversion bound. A case is one type term / one receiver.")


# =====================================================================================================
# C20 - every emitted implementation compiles and is self-contained
# =====================================================================================================

@plan("C20")
def c20(run, selftest=True):
    import re
    import subprocess
    q = run.tier == "quick"
    # the harness itself declares ~400 receivers (the corpus of C01 / C09, the shape and body families of C16 / C18): when the
    # code the derives emit for one of THEM stops compiling, that is this property's violation, not a tool error
    try:
        run.build()
    except ToolError as e:
        msg = str(e)
        if "derive macro" in msg or "proc-macro derive" in msg or "/harness/gen/" in msg or "src/gen/" in msg or "gen/corpus_gen.rs" in msg or "gen/body_gen.rs" in msg or "gen/shapes_gen.rs" in msg:
            first = next((l for l in msg.splitlines() if l.startswith("error")), "error")
            run.violation("c20:harness-receivers:" + first[:200], "a receiver of the harness's own corpus no longer compiles with the emitted implementation: " + first[:300],
                          {"module": "c20", "case": {"source": "harness/gen/*.rs (generated corpus)", "derive": "", "shape": ""}, "why": msg.splitlines()[-25:]})
            return run.finish("exploration", "harness build")
        raise
    outs = []
    for fo in ("field", "cont", "enum", "vfield"):
        res = run.tlc("MC_DeriveOptions", DO_CFG % DO_FOCUS[fo], "c20_" + fo, workers=8, timeout=7200)
        run.require_tlc_ok(res, "DeriveOptions (%s)" % fo)
        outs.append(res["out"])
    crate = os.path.join(vlib.VERIF, "c20crate")
    index = run.path("c20_index.json")
    os.makedirs(os.path.join(crate, "src"), exist_ok=True)
    p = subprocess.run(["python3", os.path.join(vlib.VERIF, "tools", "gen_c20.py"), "--seed", str(vlib.seed()), "--max", str(360 if q else 4500),
                        "--out", os.path.join(crate, "src", "lib.rs"), "--index", index] + outs, stdout=subprocess.PIPE, stderr=subprocess.PIPE, text=True)
    if p.returncode != 0:
        raise ToolError("gen_c20 failed: " + p.stderr[-2000:])
    info = json.loads(p.stdout.strip().splitlines()[-1])
    for o in outs:
        os.remove(o)
    if not os.path.exists(os.path.join(crate, "Cargo.lock")):
        import shutil
        shutil.copy(os.path.join(os.environ.get("VERIF_REPO", "/repo"), "Cargo.lock"), os.path.join(crate, "Cargo.lock"))
    b = subprocess.run(["cargo", "build", "--offline", "--message-format=short"], cwd=crate, env=dict(os.environ, CARGO_NET_OFFLINE="true"),
                       stdout=subprocess.PIPE, stderr=subprocess.STDOUT, text=True)
    idx = json.load(open(index))
    failing = {}
    other_errors = []
    for line in b.stdout.splitlines():
        m = re.match(r"src/lib.rs:(\d+):\d+: (error.*)", line)
        if m:
            ln = int(m.group(1))
            hit = next((e for e in idx if e["from"] <= ln <= e["to"]), None)
            if hit:
                failing.setdefault(hit["m"], (hit, []))[1].append(m.group(2)[:300])
            else:
                other_errors.append(line)
        elif line.startswith("error") and "could not compile" not in line and "aborting" not in line:
            other_errors.append(line)
    if b.returncode != 0 and not failing:
        raise ToolError("the C20 crate failed to build for a reason not attributable to a declaration:\n" + "\n".join(b.stdout.splitlines()[-30:]))
    for mth, (e, errs) in failing.items():
        first_attr = e["source"].split("\n")[2] if e["source"].count("\n") > 2 else ""
        key = "c20:%s:%s:%s" % (e["derive"], e["shape"], " ".join(e["source"].split())[:400])
        run.violation(key, "the derive accepted this declaration but the emitted implementation does not compile: " + "; ".join(errs[:3]),
                      {"module": "c20", "case": {"derive": e["derive"], "shape": e["shape"], "source": e["source"]}, "why": errs[:6]})
    run.evaluations += info["declarations"]
    run.replayed += info["declarations"]
    run.extra["distinct_cases"] = info["declarations"]
    run.extra["compiled_declarations"] = info["declarations"]
    run.extra["declarations_failing_to_compile"] = len(failing)
    for e in idx[:: max(1, len(idx) // 3)][:3]:
        run.samples.append({"module": "c20", "case": {"derive": e["derive"], "shape": e["shape"], "source": e["source"]}})
    run.exhaustive = False
    run.assumptions = ["rustc is the oracle; the specification supplies the set of accepted declarations (well-formed per DeriveOptions.tla, enumerated by TLC) and the harness materialises them with field types and "
                       "callables that satisfy the documented trait requirements",
                       "the generated crate imports nothing but `darling` (paths written out) and `syn` for the types of magic members"]
    return run.finish(
        "exploration",
        "declarations accepted by the specification (TLC enumerates the well-formed ones of the field / container / variant option spaces of DeriveOptions.tla; a seeded sample of 360 (quick) / 4500 (thorough) is taken) are "
        "written out as real receivers of one crate with hostile user-visible names (raw keyword identifiers, names equal to darling's option words and to its generated locals without the `__` prefix, variants named "
        "Ok / Err / Some / None / Default ...), user callables as paths, strings and closures, and compiled offline against the working tree; every rustc error is attributed to its declaration. The generated "
        "receiver corpus of C01/C09/C16 (about 350 more derives) is compiled by the same run. A case is one declaration; distinct by construction.")
