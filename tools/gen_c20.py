#!/usr/bin/env python3
"""C20: materialise declarations ACCEPTED by the specification (well-formed per DeriveOptions.tla, read from TLC's
REPLAY lines) as real receiver items of a crate that imports nothing but `darling` (and `syn` for the types of magic
fields), with hostile user-visible names, so that rustc can be the oracle."""
import argparse, json, random, sys

FIELD_NAMES = ["r#type", "r#fn", "r#match", "r#ref", "errors", "default", "items", "item", "attr", "flatten", "skip", "rename", "map", "with",
               "value", "e", "err", "v", "inner", "name", "len", "other", "result", "r#loop", "r#struct", "r#Self_x", "x_default", "fwd_attrs", "val"]
VARIANT_NAMES = ["Default", "Ok", "Err", "Some", "None", "Result", "Option", "Box", "Vec", "String", "Item", "Error", "FromMeta", "Meta", "Path", "Word", "Skip", "R#Type".replace("R#", "r#T") if False else "Type"]
TYPE_PARAMS = ["T", "U", "__T", "Item", "E", "Error", "M"]
STRING, VEC, OPTION, DEFAULT, OK = "::std::string::String", "::std::vec::Vec", "::core::option::Option", "::core::default::Default::default()", "::core::result::Result::Ok"
# items that shadow every prelude / crate name a careless expansion could mention without `::darling::export::`
HOSTILE_SCOPE = """    pub struct Default; pub struct Option; pub struct Result; pub struct Some; pub struct None; pub struct Ok; pub struct Err;
    pub struct Vec; pub struct String; pub struct Box; pub struct From; pub struct Into; pub struct FromMeta; pub struct Error; pub struct Iterator;
    pub struct IntoIterator; pub struct Clone; pub struct Ident; pub struct Meta; pub struct NestedMeta; pub struct Attribute; pub struct Path;
    pub mod darling {} pub mod syn {} pub mod core {} pub mod std {} pub mod export {} pub mod ast {} pub mod util {}"""


def tagged(path):
    tag = '<<"REPLAY", '
    with open(path, errors="replace") as f:
        for line in f:
            if line.startswith(tag):
                yield json.loads(json.loads(line.strip()[len(tag):-2]))


def opt_text(it, ctx):
    """concrete spelling of an accepted option item + the helper items it needs"""
    n, f = it["name"], it["form"]
    h = []
    me = ctx["me"]          # unique suffix
    ft = ctx.get("ft", STRING)
    src_ty = ctx.get("src", ft)   # what the converter yields before map/and_then
    g = ctx.get("g", "")          # "<T>" for a generic receiver, "" otherwise
    if n == "rename":
        return 'rename = "renamed_%s"' % me, h
    if n == "default":
        if f == "word":
            return "default", h
        h.append("pub fn fd_%s%s() -> %s { %s }" % (me, ctx.get("dg", "") or ctx.get("fg", ""), ctx["dt"], DEFAULT))
        return ('default = "fd_%s"' if f == "str" else "default = fd_%s") % me, h
    if n == "with":
        h.append("pub fn w_%s%s(m: &::syn::Meta) -> ::darling::Result<%s> { <%s as ::darling::FromMeta>::from_meta(m) }" % (
            me, ctx.get("fg", "").replace(">", ": ::darling::FromMeta>"), src_ty, src_ty))
        return ("with = w_%s" % me) if f == "path" else ("with = |m| w_%s(m)" % me), h
    if n == "skip":
        return {"word": "skip", "true": "skip = true", "false": "skip = false"}[f], h
    if n == "map":
        h.append("pub fn m_%s%s(v: %s) -> %s { v }" % (me, ctx.get("fg", ""), src_ty, src_ty))
        return ('map = "m_%s"' if f == "str" else "map = m_%s") % me, h
    if n == "and_then":
        h.append("pub fn t_%s%s(v: %s) -> ::darling::Result<%s> { %s(v) }" % (me, ctx.get("fg", ""), src_ty, src_ty, OK))
        return ('and_then = "t_%s"' if f == "str" else "and_then = t_%s") % me, h
    if n == "multiple":
        return {"word": "multiple", "true": "multiple = true", "false": "multiple = false"}[f], h
    if n == "flatten":
        return "flatten", h
    if n == "word":
        return {"word": "word", "true": "word = true", "false": "word = false"}[f], h
    if n == "rename_all":
        return 'rename_all = "camelCase"', h
    if n == "bound":
        return 'bound = "u8: Copy"', h
    if n == "allow_unknown_fields":
        return {"word": "allow_unknown_fields", "true": "allow_unknown_fields = true", "false": "allow_unknown_fields = false"}[f], h
    if n == "attributes":
        return "attributes(a, b)" if f == "words" else "attributes()", h
    if n == "forward_attrs":
        return {"word": "forward_attrs", "words": "forward_attrs(doc, allow)", "empty": "forward_attrs()"}[f], h
    if n == "from_ident":
        return "from_ident", h
    if n == "from_word":
        h.append("pub fn fw_%s%s() -> ::darling::Result<%s> { %s(%s) }" % (me, g, ctx["self"], OK, DEFAULT))
        return ("from_word = fw_%s" % me) if f == "path" else ("from_word = || fw_%s()" % me), h
    if n == "from_none":
        return "from_none = || ::core::option::Option::None", h
    if n == "supports":
        v = ctx["derive"] == "FromVariant"
        if f == "empty":
            return "supports()", h
        return ("supports(named, unit)" if v else "supports(struct_named, enum_unit)"), h
    raise ValueError((n, f))


def render(case, idx, rng):
    d = case["derive"]
    shape = case["shape"]
    # a third of the receivers are generic (over a parameter with an unhelpful name), half live in a hostile scope
    tp = rng.choice(TYPE_PARAMS)
    generic = shape in ("named", "named_attrs", "enum") and rng.random() < 0.34
    hostile = rng.random() < 0.5
    # half of the generic receivers also carry a lifetime with the most common name there is
    lifetime = generic and rng.random() < 0.5
    g = ("<'a, %s>" % tp if lifetime else "<%s>" % tp) if generic else ""
    bare = "R%d" % idx
    name = bare + g
    helpers = []
    # the recorded known deviation of C10 (from_ident followed by default is rejected): not an accepted declaration
    names_c = [i["name"] for i in case["cont"]]
    if "from_ident" in names_c and "default" in names_c[names_c.index("from_ident"):]:
        return None
    pool = FIELD_NAMES[:]
    rng.shuffle(pool)
    magic = {"FromDeriveInput": ["ident", "vis", "generics", "attrs", "data"], "FromField": ["ident", "vis", "ty", "attrs"],
             "FromVariant": ["ident", "discriminant", "fields", "attrs"], "FromTypeParam": ["ident", "bounds", "default", "attrs"]}.get(d, [])
    pool = [p for p in pool if p not in magic]
    # names that are magic for OTHER derives are ordinary here (`vis` on a FromVariant receiver, `bounds` on a FromField one ..)
    foreign = [n for n in ["ident", "vis", "generics", "attrs", "data", "ty", "discriminant", "fields", "bounds"] if n not in magic and not (n == "attrs" and d != "FromMeta")]
    if foreign and (d in ("FromVariant", "FromTypeParam", "FromAttributes") or rng.random() < 0.4):
        pool.insert(rng.randrange(2), rng.choice(foreign))
    # container options
    copts = []
    needs_default = False
    for k, it in enumerate(case["cont"]):
        t, h = opt_text(it, {"me": "%d_c%d" % (idx, k), "dt": name, "dg": g, "self": name, "derive": d, "g": g})
        if it["name"] in ("map", "and_then"):
            fn = "cm_%d" % idx
            if it["name"] == "map":
                h = ["pub fn %s%s(v: %s) -> %s { v }" % (fn, g, name, name)]
                t = ('map = "%s"' if it["form"] == "str" else "map = %s") % fn
            else:
                h = ["pub fn %s%s(v: %s) -> ::darling::Result<%s> { %s(v) }" % (fn, g, name, name, OK)]
                t = ('and_then = "%s"' if it["form"] == "str" else "and_then = %s") % fn
        if it["name"] in ("default", "from_word"):
            needs_default = True
        if it["name"] == "from_ident" and not any("::core::convert::From<" in h for h in helpers):      # the option may be repeated
            src_ident = (OPTION + "<::syn::Ident>") if d == "FromField" else "::syn::Ident"
            helpers.append("impl%s ::core::convert::From<%s> for %s { fn from(_: %s) -> Self { %s } }" % (g, src_ident, name, src_ident, DEFAULT))
            needs_default = True
        copts.append(t)
        helpers += h
    derives = "#[derive(Debug, Clone, %s::darling::%s)]" % ("" if generic else "Default, ", d)
    cattr = ("#[darling(%s)]\n" % ", ".join(copts)) if copts else ""
    if d == "FromAttributes" and not any(i["name"] == "attributes" and i["form"] == "words" for i in case["cont"]) and shape != "newtype":
        return None
    body = None
    if shape == "named_attrs" and d in ("FromMeta", "FromAttributes"):
        return None       # `attrs` is a magic member only for the element-level traits that forward attributes
    if shape in ("named", "named_attrs"):
        fields = []
        fnames = []
        flat_generic = False
        for fi, key in enumerate(["f1", "f2"]):
            if key == "f2" and not (shape == "named" and case["f2present"]):
                continue
            items = case[key]
            names = [i["name"] for i in items]
            ft = STRING
            if any(i["name"] == "multiple" and i["form"] in ("word", "true") for i in items):
                ft = VEC + "<" + STRING + ">"
            if "flatten" in names and generic:
                # the receiver's parameter is used by the flatten member only: its bound has to come from that member
                ft = "Inner%d<%s>" % (idx, tp)
                flat_generic = True
                helpers.append("#[derive(Debug, Clone, ::darling::FromMeta)] pub struct Inner%d<X> { #[darling(default)] pub %s: %s<X> }" % (idx, pool[5], OPTION))
                helpers.append("impl<X> ::core::default::Default for Inner%d<X> { fn default() -> Self { Self { %s: ::core::option::Option::None } } }" % (idx, pool[5]))
            elif "flatten" in names:
                ft = "Inner%d" % idx
                helpers.append("#[derive(Debug, Clone, Default, ::darling::FromMeta)] pub struct Inner%d { #[darling(default)] pub %s: %s }" % (idx, pool[5], STRING))
            src = STRING if not ft.startswith("Inner%d" % idx) else ft
            fo = []
            for k, it in enumerate(items):
                t, h = opt_text(it, {"me": "%d_%s_%d" % (idx, key, k), "ft": ft, "src": src, "dt": ft, "self": name, "derive": d, "g": g,
                                     "fg": g if "<%s>" % tp in ft else ""})
                fo.append(t)
                helpers += h
            fname = pool[fi]
            fnames.append(fname)
            fields.append("    %spub %s: %s," % (("#[darling(%s)] " % ", ".join(fo)) if fo else "", fname, ft))
        if generic and not flat_generic:
            # the parameter is used by an optional member, so that the derive has to bound it
            fields.append("    pub %s: %s<%s>," % (pool[6], OPTION, tp))
            fnames.append(pool[6])
        if lifetime:
            fields.append("    #[darling(skip)] pub %s: ::core::marker::PhantomData<&'a ()>," % pool[7])
            fnames.append(pool[7])
        if shape == "named_attrs":
            fields.append("    pub attrs: %s<::syn::Attribute>," % VEC)
            fnames.append("attrs")
        body = "pub struct %s {\n%s\n}" % (name, "\n".join(fields))
        if generic:
            helpers.append("impl%s ::core::default::Default for %s { fn default() -> Self { Self { %s } } }" % (
                g, name, ", ".join("%s: %s" % (f, DEFAULT) for f in fnames)))
    elif shape == "unit":
        body = "pub struct %s;" % name
    elif shape == "newtype":
        inner = {"FromMeta": STRING, "FromDeriveInput": "::syn::DeriveInput", "FromField": "::syn::Field", "FromVariant": "::syn::Variant",
                 "FromTypeParam": "::syn::TypeParam", "FromAttributes": VEC + "<::syn::Attribute>"}[d]
        if d == "FromAttributes":
            return None
        derives = "#[derive(::darling::%s)]" % d
        body = "pub struct %s(pub %s);" % (name, inner)
        helpers = [h for h in helpers if DEFAULT not in h]
        if needs_default:
            return None
    elif shape == "tuple2":
        body = "pub struct %s(pub %s, pub u8);" % (name, STRING)
    elif shape == "enum":
        if case.get("f2present"):
            return None           # a second struct variant: rendered by the struct-variant path of variant 1 only
        vs = []
        vn = VARIANT_NAMES[:]
        rng.shuffle(vn)
        for vi, key in enumerate(["v1", "v2"]):
            if key == "v2" and not case["v2present"]:
                continue
            items = case[key]
            vo = []
            for k, it in enumerate(items):
                t, h = opt_text(it, {"me": "%d_%s_%d" % (idx, key, k), "self": name, "derive": d, "g": g})
                vo.append(t)
            st = case["v1style"] if key == "v1" else "unit"
            # the field of a struct variant carries the options the specification put on it
            vfo = []
            if st == "struct" and key == "v1":
                for k, it in enumerate(case.get("f1", [])):
                    t, h = opt_text(it, {"me": "%d_vf_%d" % (idx, k), "ft": STRING, "src": STRING, "dt": STRING, "self": name, "derive": d, "g": g})
                    if it["name"] in ("flatten", "multiple"):
                        return None           # would need another field type; covered by the struct receivers
                    vfo.append(t)
                    helpers += h
            vfa = ("#[darling(%s)] " % ", ".join(vfo)) if vfo else ""
            sfx = {"unit": "", "newtype": "(%s)" % STRING, "struct": " { %s%s: %s, #[darling(default)] %s: u8 }" % (vfa, pool[3], STRING, pool[4]),
                   "tuple2": "(%s, u8)" % STRING, "tuple0": "()", "struct0": " {}"}[st]
            vs.append("    %s%s%s," % (("#[darling(%s)] " % ", ".join(vo)) if vo else "", vn[vi], sfx))
        if generic:
            vs.append("    %s(%s)," % (vn[2], tp))
        if lifetime:
            vs.append("    #[darling(skip)] %s(::core::marker::PhantomData<&'a ()>)," % vn[3])
        derives = "#[derive(Debug, Clone, ::darling::%s)]" % d
        body = "pub enum %s {\n%s\n}" % (name, "\n".join(vs))
        if needs_default:
            first = vn[0]
            unit_first = case["v1style"] == "unit"
            if not unit_first:
                return None
            helpers.append("impl%s ::core::default::Default for %s { fn default() -> Self { %s::%s } }" % (g, name, bare, first))
    else:
        return None
    src = "pub mod m%d {\n%s%s\n%s%s\n%s\n}\n" % (idx, (HOSTILE_SCOPE + "\n") if hostile else "", derives, cattr, body, "\n".join(helpers))
    return src


def main():
    ap = argparse.ArgumentParser()
    ap.add_argument("--seed", type=int, default=0)
    ap.add_argument("--max", type=int, default=300)
    ap.add_argument("--out", required=True)
    ap.add_argument("--index", required=True)
    ap.add_argument("tlc_outputs", nargs="+")
    a = ap.parse_args()
    rng = random.Random(a.seed)
    cases = []
    for p in a.tlc_outputs:
        good = [c for c in tagged(p) if c["expect"]["impl"]]
        rng.shuffle(good)
        # bodies with members exercise most of the generated code: two thirds of the sample
        quota = a.max // len(a.tlc_outputs)
        rich = [c for c in good if c["shape"] in ("named", "named_attrs", "enum")]
        poor = [c for c in good if c["shape"] not in ("named", "named_attrs", "enum")]
        take = rich[: (2 * quota) // 3]
        cases += take + poor[: quota - len(take)]
    out = ["// @generated by tools/gen_c20.py", "#![allow(dead_code, non_snake_case, non_camel_case_types, unused_variables, clippy::all)]", ""]
    index = []
    line = len(out) + 1
    n = 0
    for i, c in enumerate(cases):
        src = render(c, i, rng)
        if src is None:
            continue
        n += 1
        nl = src.count("\n")
        index.append({"m": i, "from": line, "to": line + nl - 1, "derive": c["derive"], "shape": c["shape"], "source": src})
        out.append(src.rstrip("\n"))
        line += nl
    open(a.out, "w").write("\n".join(out) + "\n")
    json.dump(index, open(a.index, "w"))
    print(json.dumps({"declarations": n, "accepted_by_spec": len(cases)}))


if __name__ == "__main__":
    main()
