#!/usr/bin/env python3
"""Regenerates /verif/MANIFEST.json from the table below (kept valid at all times)."""
import json, os
V = os.path.dirname(os.path.dirname(os.path.abspath(__file__)))
props = [json.loads(l) for l in open(os.path.join(V, "properties.jsonl"))]

TRUST = ("TLC verdicts are exhaustive only inside the stated bounds; the Rust harness's printers/projections, "
         "proc-macro2's fallback spans and the external oracles named in DESIGN.md section 8 are trusted")

CLAIMED = {
 "C04": dict(engine="ErrorAlgebra", design_ref="4.1, 5/C04", technique="TLA+ spec (ErrorAlgebra.tla) model-checked with TLC; every transition replayed on real darling::Error; recorded real histories trace-validated (Trace_ErrorAlgebra.tla)",
   text="The algebra (count, flatten order and paths, idempotence, Display, one diagnostic per leaf) is checked by TLC as invariants over every value the builder machine reaches within bounds; every (state, operation) transition TLC explored is executed on real darling::Error values and all public observations compared; random real histories beyond the bounds are accepted as behaviours of the spec with all laws as invariants."),
 "C05": dict(engine="Accumulator", design_ref="4.2, 5/C05", technique="TLA+ spec (Accumulator.tla) model-checked with TLC over all bounded histories; each history replayed on a real Accumulator; recorded real histories trace-validated (Trace_Accumulator.tla)",
   text="All histories over the twelve operations up to the bound are enumerated by TLC with the property's clauses (Ok iff nothing recorded, recording order, handle/checkpoint results, drop bomb with lost-count, no second panic while unwinding) as invariants over the history; each history is then executed call by call on a real accumulator and every result compared; random real histories beyond the bound are accepted as behaviours of the spec."),
}

NOT_YET = "check not built yet (planned, see DESIGN.md section 5)"

checks = []
for p in props:
    c = CLAIMED.get(p["id"])
    if not c:
        continue
    checks.append({
        "property_id": p["id"],
        "quick_cmd": "tools/check %s --tier quick" % p["id"],
        "thorough_cmd": "tools/check %s --tier thorough" % p["id"],
        "evidence_file": "evidence/%s.json" % p["id"],
        "replay_cmd_template": "tools/check %s --replay {path}" % p["id"],
        "engine": c["engine"],
        "level_claimed": {"category": c.get("level", "model_checking"), "text": c["text"], "design_ref": "DESIGN.md section " + c["design_ref"]},
        "level_note": c.get("note", TRUST),
        "technique": c["technique"],
    })
engines = {}
for pid, c in CLAIMED.items():
    engines.setdefault(c["engine"], []).append(pid)
m = {
 "version": 1,
 "setup_cmd": "tools/setup",
 "hooks": {"guard": "darling_verif",
           "enable": "harness/.cargo/config.toml passes --cfg darling_verif to every crate it builds (including /repo); no source hooks exist: the public API exposes the abstract state (see DESIGN.md 2.2)",
           "baseline_off_cmd": "cd /repo && cargo test --workspace --no-fail-fast --offline",
           "source_commits": [], "add_only": True},
 "engines": [{"name": k, "path": "spec/%s.tla" % k, "serves_properties": sorted(v),
              "kind_free_text": "TLA+ specification checked with TLC, bound to the code by replay (spec->impl) and trace validation (impl->spec) through harness/ (Rust) and tools/check"} for k, v in sorted(engines.items())],
 "checks": checks,
 "notes": "All commands run from /verif. VERIF_SEED seeds TLC (-seed) and every Rust generator. Exit 2 = tool error.",
 "not_applicable": [{"property_id": p["id"], "reason": NOT_YET} for p in props if p["id"] not in CLAIMED],
}
json.dump(m, open(os.path.join(V, "MANIFEST.json"), "w"), indent=1)
print("claimed:", sorted(CLAIMED))
