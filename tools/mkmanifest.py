#!/usr/bin/env python3
"""Regenerates /verif/MANIFEST.json from the table below (kept valid at all times)."""
import json, os
V = os.path.dirname(os.path.dirname(os.path.abspath(__file__)))
props = [json.loads(l) for l in open(os.path.join(V, "properties.jsonl"))]

TRUST = ("TLC verdicts are exhaustive only inside the stated bounds; the Rust harness's printers/projections, "
         "proc-macro2's fallback spans and the external oracles named in DESIGN.md section 8 are trusted")

CLAIMED = {
 "C04": dict(engine="ErrorAlgebra", design_ref="4.1, 5/C04", technique="TLA+ spec (ErrorAlgebra.tla) model-checked with TLC; every transition replayed on real darling::Error; recorded real histories trace-validated (Trace_ErrorAlgebra.tla)",
   text="The algebra (count, flatten order and paths, idempotence, Display, one diagnostic per leaf) is checked by TLC as invariants over every value the builder machine reaches within bounds; every (state, operation) transition TLC explored is executed on real darling::Error values and all public observations compared; random real histories beyond the bounds are accepted as behaviours of the spec with all laws as invariants."),
 "C05": dict(engine="Accumulator", design_ref="4.2, 5/C05", technique="TLA+ spec (Accumulator.tla) model-checked with TLC over all bounded histories; each history replayed on a real Accumulator; recorded real histories trace-validated (Trace_Accumulator.tla)",
   text="All histories over the twelve operations up to the bound are enumerated by TLC with the property's clauses (Ok iff nothing recorded, recording order, handle/checkpoint results, drop bomb with lost-count, no second panic while unwinding) as invariants over the history; each history is then executed call by call on a real accumulator and every result compared; random real histories beyond the bound are accepted as behaviours of the spec."),
 "C01": dict(engine="Receiver", design_ref="4.6, 5/C01", technique="TLA+ spec of the generated parser (Receiver.tla) model-checked with TLC against the declarative field mapping (ReceiverProps.tla: Expected); every behaviour replayed on real derived receivers compiled from the corpus",
   text="For every corpus declaration and every input of the bounded grammar TLC checks that the step machine transcribed from the code generator yields, on mistake-free inputs, exactly the declaratively defined value (effective names, conversion then with then map/and_then, multiple in order, default chain, flatten hand-off, allow_unknown); every such behaviour is then executed by the real derived parser built from /repo and the value compared term by term with the declarative expectation."),
 "C02": dict(engine="Receiver", design_ref="4.6, 5/C02", technique="TLA+ spec (Receiver.tla) model-checked with TLC against the declarative bag of mistakes (ReceiverProps.tla: Mistakes); every behaviour replayed on real derived receivers",
   text="TLC checks on every (declaration, input) within bounds that the machine fails iff the declaratively defined bag of mistakes is non-empty and that its flattened leaves are in one-to-one correspondence with it (class, offending name, location path), at every nesting depth incl. nested receivers, enum variants, map values and flatten hand-off; each behaviour is executed by the real parser and its flattened leaves compared with the same bag."),
 "C03": dict(engine="Receiver+ErrorAlgebra", design_ref="4.1, 4.6, 5/C03", technique="TLA+ specs (ErrorOps/ErrorAlgebra, Receiver) model-checked with TLC: span monotonicity and inheritance laws, and span-in-region for every mistake; replayed on real code with line/column spans",
   text="TLC checks that with_span/at/flatten never replace a span and that flattening gives a leaf its own or its bundle's span (ErrorAlgebra), and that every leaf the receiver machine produces points into the region the declarative side assigns to its mistake (the offending item; exactly the enclosing item for an absence; none only at the root); the real parser's leaves are compared by line/column range with those regions."),
 "C08": dict(engine="Receiver", design_ref="4.6, 5/C08", technique="TLA+ spec (Receiver.tla: attribute walk, forwarding) model-checked with TLC: merge law and forwarded set as invariants over all partitions; replayed on the five element-level derives",
   text="For element-level roots TLC enumerates every split of every item sequence into attributes interleaved with empty, bare, name-value, non-meta and unrelated attributes and checks that the result equals that of the single merged list and that the forwarded indices are exactly the selected ones in order; each behaviour is executed by the real derived parser (value, errors, forwarded attributes token-for-token)."),
 "C09": dict(engine="Receiver", design_ref="4.6, 5/C09", technique="TLA+ spec (Receiver.tla: enum receivers) model-checked with TLC against the declarative variant selection (ReceiverProps.tla); replayed on real derived enums",
   text="TLC checks for every corpus enum (unit/newtype/struct variants, rename, rename_all, skip, word, from_word, from_none) and every input form (word, string, other literals, list of 0..2 items) that the machine selects exactly the declaratively defined variant or reports the declaratively defined mistake; each behaviour is executed by the real derived enum."),
 "C14": dict(engine="Maps", design_ref="4.5, 5/C14", technique="TLA+ spec of the map conversion loop (Maps.tla) model-checked with TLC against the declarative verdict / entries / bag of mistakes; every behaviour replayed on the five real map instantiations x five value types",
   text="TLC enumerates every item list within bounds for String/Ident/Path keys and checks the loop machine against the declarative reading (succeeds iff all named, keys pairwise distinct after conversion, all values convert; one entry per item; otherwise one leaf per literal, repeat, bad key and bad value under its key); each list is executed on the real HashMap/BTreeMap conversions and hash vs ordered compared."),
 "C07": dict(engine="Receiver", design_ref="4.6, 5/C07", technique="TLA+ spec (Receiver.tla) with every expect()/unreachable!() of the generated parser as a modelled panic transition whose unreachability TLC checks (NoPanic); all behaviours, incl. hostile inputs, replayed on the real parsers under catch_unwind",
   text="Every expect of the generated code is a transition to a panic flag in the receiver machine and TLC checks it is unreachable for every declaration and input in bounds (the presence check plus the single early return make it so); the same behaviours - including bodies that are not meta syntax at any depth, bare and name-value attributes, flags in every form, receivers with nothing to forward - are executed by the real parsers with panics caught and reported. Unions / shapes and oversized integers are covered by the Shapes and Targets machines as they are added."),
 "C17": dict(engine="Receiver", design_ref="4.6, 5/C17", technique="TLA+ spec (Receiver.tla: did_you_mean / add_alts / add_sibling_alts transcribed; ReceiverProps.tla: eligible names per position) model-checked with TLC over a similarity table computed with strsim; replayed on real receivers, suggested names re-submitted; repeated with the feature off",
   text="TLC checks for every corpus root and every misspelt name at every level that the suggestion the machine attaches is among the best names eligible at that position per the declarative side (never skipped / flatten members, parent names only through direct flatten hand-off, only above threshold) and that no other leaf carries one; the real parser's suggestions are compared with that set, each suggested name is re-submitted and must not be unknown, and the run is repeated without the suggestions feature."),
 "C18": dict(engine="Shapes", design_ref="4.7, 5/C18", technique="TLA+ spec (Shapes.tla: word parsing, ShapeSet, generated __validate_body) model-checked with TLC exhaustively against the documented table; compiled receiver family and the ShapeSet API replayed",
   text="TLC checks all 2048 subsets of the shape words (and all FromVariant forms) against every body incl. unions and empty enums: verdict and error count of the transcribed validator equal the documented table; a compiled family of receivers (all 2048 in the thorough tier) is executed on every body and the stand-alone ShapeSet API is checked exhaustively."),
 "C16": dict(engine="Body", design_ref="4.7, 5/C16", technique="TLA+ spec of body conversion (Body.tla: Data::try_from / Fields::try_from / variant fields) model-checked with TLC against the declarative verdict and failure set; every body replayed on a generated family of receivers over all subsets of magic fields, parts compared token-wise with the input",
   text="TLC checks for every body within bounds and every assignment of failing members that conversion fails exactly when a member fails or the element is a union, keeps one entry per member in source order and reports every failure with named fields located by name; each body is then rendered with varied visibility / types / generics and given to receivers declaring every subset of magic fields (plain, custom converter, SpannedValue / WithOriginal / Result wrappers), whose every part must equal the input's."),
 "C15": dict(engine="NestedMetaGrammar+MetaRouting", design_ref="4.3, 4.4, 5/C15", technique="TLA+ specs (NestedMetaGrammar.tla: peek-driven parser vs declarative list grammar; MetaRouting.tla: call-stack machine of the trait's default methods vs routing-by-form) model-checked with TLC exhaustively; every string / every (hook set, item, mode) replayed on the real parser and on 128 probe implementers",
   text="TLC checks that the transcribed parser and the declarative definition of a nested-meta list agree on every token-class string up to the bound, and that for all 128 override sets the dispatch machine routes every item form to exactly one hook or the documented default rejection with the error spanned on the way out; each string is materialised and parsed by the real parse_meta_list (verdict, order, classification, print/re-parse identity), and each routing case is executed on a real probe implementer that logs its calls."),
 "C11": dict(engine="Scalars", design_ref="4.3, 5/C11", technique="TLA+ specs (Scalars.tla: symbolic integer literals over every type boundary; ScalarsConcrete.tla: concrete 8/16-bit range; ScalarForms.tla: default dispatch restricted to each target's hooks) model-checked with TLC against the declarative 'standard parsing accepts it / denoted value' rule; every case converted by the real impls; float values bit-compared with std",
   text="TLC checks the transcribed from_meta_num!/float/bool/char/String conversions against the declarative rule for all 24 integer targets x every boundary +-2 x every spelling, for the 8/16-bit targets over a concrete range, and for every scalar target x form x literal kind; each case is converted by the real implementation (exact value, spanned error, no panic); float values are compared bit for bit with str::parse on seeded texts including ones beside f32 rounding midpoints."),
 "C12": dict(engine="Wrappers", design_ref="4.3, 5/C12", technique="TLA+ spec (Wrappers.tla: implementers as terms, each wrapper overriding exactly the entry points of its impl block, abstract inner target) model-checked with TLC: transparency law for every abstract base target under every wrapper chain; replayed differentially (W<T> vs T on the same item) on real inner targets and probe implementers",
   text="TLC checks, for all 2048 abstract inner targets (any subset of the trait's entry points overridden, four acceptance predicates, with or without a value-for-absent) and every chain of one or two wrappers, that the outer conversion accepts exactly what the inner accepts, holds its value, fails with its error, with only the stated exceptions (Override on the bare word, the two Result forms never failing, absent-item rules); every chain x form is then instantiated over 13 real targets and 16 probe implementers and the real outer outcome is compared with the law applied to the real inner outcome (value, error, span, hooks called, SpannedValue range, WithOriginal copy, from_none)."),
 "C13": dict(engine="SynTargets", design_ref="4.3, 5/C13", technique="TLA+ spec (SynTargets.tla: one row per syntax-valued target - what it accepts bare, which grammar re-parses a quoted value - under the group-transparent dispatch) model-checked with TLC against the declarative accept matrix over a fragment table computed with syn; every case converted by the real impl and compared token-for-token with the syn oracle",
   text="TLC checks for 31 targets x 55 fragments x bare/quoted x 0..2 invisible groups that the transcribed dispatch accepts exactly the values of the target's syntax class (bare: the expression itself; quoted: the contents re-parsed by the same grammar; literal targets the literal itself) and rejects everything else; every case is converted by the real implementation and the printed value compared with what the user wrote or with syn's direct parse of the contents, errors must be spanned; the two expression helpers, Meta, PathList, vectors of literals and numeric arrays are checked against the clauses the property states for them."),
}

NOT_YET = "check not built yet (planned, see DESIGN.md section 5)"

checks = []
for p in props:
    c = CLAIMED.get(p["id"])
    if not c:
        continue
    checks.append({
        "property_id": p["id"],
        "quick_cmd": "tools/check %s --tier quick" % p["id"],
        "thorough_cmd": "tools/check %s --tier thorough" % p["id"],
        "evidence_file": "evidence/%s.json" % p["id"],
        "replay_cmd_template": "tools/check %s --replay {path}" % p["id"],
        "engine": c["engine"],
        "level_claimed": {"category": c.get("level", "model_checking"), "text": c["text"], "design_ref": "DESIGN.md section " + c["design_ref"]},
        "level_note": c.get("note", TRUST),
        "technique": c["technique"],
    })
engines = {}
for pid, c in CLAIMED.items():
    engines.setdefault(c["engine"], []).append(pid)
m = {
 "version": 1,
 "setup_cmd": "tools/setup",
 "hooks": {"guard": "darling_verif",
           "enable": "harness/.cargo/config.toml passes --cfg darling_verif to every crate it builds (including /repo); no source hooks exist: the public API exposes the abstract state (see DESIGN.md 2.2)",
           "baseline_off_cmd": "cd /repo && cargo test --workspace --no-fail-fast --offline",
           "source_commits": [], "add_only": True},
 "engines": [{"name": k, "path": "spec/%s.tla" % k, "serves_properties": sorted(v),
              "kind_free_text": "TLA+ specification checked with TLC, bound to the code by replay (spec->impl) and trace validation (impl->spec) through harness/ (Rust) and tools/check"} for k, v in sorted(engines.items())],
 "checks": checks,
 "notes": "All commands run from /verif. VERIF_SEED seeds TLC (-seed) and every Rust generator. Exit 2 = tool error.",
 "not_applicable": [{"property_id": p["id"], "reason": NOT_YET} for p in props if p["id"] not in CLAIMED],
}
json.dump(m, open(os.path.join(V, "MANIFEST.json"), "w"), indent=1)
print("claimed:", sorted(CLAIMED))
