"""Shared driver machinery for /verif/tools/check.

Everything a registered MANIFEST command does goes through here: build the Rust harness against
/repo's current working tree, run TLC, replay TLC's behaviours through the real code, record
traces from the real code and validate them with TLC, compare with KNOWN_FINDINGS.json, write
evidence, print VIOLATION / KNOWN-FINDING lines and choose the exit status.

exit 0: property held on everything explored (known findings listed)
exit 1: VIOLATION line printed, replay file written
exit 2: tool error (build failure, TLC crash, timeout, selftest that did not fail)
"""
import hashlib
import json
import os
import re
import shutil
import subprocess
import sys
import time

VERIF = os.path.dirname(os.path.dirname(os.path.abspath(__file__)))
SPEC = os.path.join(VERIF, "spec")
HARNESS = os.path.join(VERIF, "harness")
WORKROOT = os.path.join(VERIF, ".work")
VH = os.path.join(HARNESS, "target", "debug", "vh")


class ToolError(Exception):
    pass


def log(*a):
    print(*a, flush=True)


def seed():
    try:
        return int(os.environ.get("VERIF_SEED", "0"))
    except ValueError:
        return 0


class Run:
    """One invocation of a check: work directory, counters, mismatches, evidence."""

    def __init__(self, pid, tier):
        self.pid = pid
        self.tier = tier
        self.t0 = time.time()
        self.work = os.path.join(WORKROOT, "%s-%d" % (pid, os.getpid()))
        shutil.rmtree(self.work, ignore_errors=True)
        os.makedirs(self.work)
        self.states = 0
        self.transitions = 0
        self.replayed = 0          # spec -> impl behaviours/transitions stepped through the real code
        self.trace_events = 0      # impl -> spec events validated
        self.traces = 0
        self.evaluations = 0
        self.samples = []
        self.violations = []       # (key, description, replay-payload)
        self.model_drift = 0
        self.drift_samples = []
        self.unspecified = 0
        self.notes = []
        self.tlc_runs = []
        self.exhaustive = True
        self.extra = {}
        self.assumptions = []
        self.distinct = set()

    def path(self, name):
        return os.path.join(self.work, name)

    def cleanup(self):
        shutil.rmtree(self.work, ignore_errors=True)

    # ------------------------------------------------------------------ harness
    def build(self, features=None):
        env = dict(os.environ, CARGO_NET_OFFLINE="true")
        cmd = ["cargo", "build", "--offline", "--quiet"]
        if features is not None:
            cmd += ["--no-default-features", "--features", features] if features else ["--no-default-features"]
        t = time.time()
        p = subprocess.run(cmd, cwd=HARNESS, env=env, stdout=subprocess.PIPE, stderr=subprocess.STDOUT, text=True)
        if p.returncode != 0:
            tail = "\n".join(p.stdout.splitlines()[-40:])
            raise ToolError("harness build failed against /repo's working tree:\n" + tail)
        self.notes.append("harness build %.1fs" % (time.time() - t))

    def vh(self, *args, timeout=3600, env=None, binary=None):
        e = dict(os.environ)
        if env:
            e.update(env)
        p = subprocess.run([binary or VH] + [str(a) for a in args], stdout=subprocess.PIPE, stderr=subprocess.PIPE,
                           text=True, timeout=timeout, env=e)
        if p.returncode == 3:
            # a panic escaped every catch of the harness: a panic raised inside the code under test is a finding,
            # one raised by the harness's own code (a broken assumption about its input) is a tool error
            try:
                fp = json.loads(p.stdout.strip().splitlines()[-1])
            except Exception:
                fp = {"at": "", "fatal_panic": p.stdout[-500:]}
            if fp.get("at") and "/harness/src/" not in fp["at"] and not fp["at"].startswith("src/"):
                self.violation("harness-stopped-by-panic:%s" % fp["at"],
                               "the code under test panicked at %s (%s) outside any conversion the harness guards; `%s` could not complete" % (
                                   fp["at"], fp.get("fatal_panic", "")[:300], " ".join(map(str, args))[:200]),
                               {"module": "harness", "args": [str(a) for a in args], "panic": fp})
                return {"cases": 0, "prop_mismatch": 0, "model_drift": 0, "prop": [], "model": [], "samples": [], "runs": 0, "events": 0}
            raise ToolError("harness %s stopped by a panic of its own at %s: %s" % (" ".join(map(str, args)), fp.get("at"), fp.get("fatal_panic", "")[:500]))
        if p.returncode != 0:
            raise ToolError("harness %s failed (%d): %s" % (" ".join(map(str, args)), p.returncode, p.stderr[-2000:]))
        last = p.stdout.strip().splitlines()[-1]
        return json.loads(last)

    # ------------------------------------------------------------------ TLC
    def tlc(self, module, cfg_text, name, workers=4, env=None, simulate=None, depth=None, deque=False,
            timeout=3000, xmx="8g", expect_fail=False, coverage=False):
        """Run TLC on spec/<module>.tla with the given cfg text. Returns dict with out (path), ok, states, transitions."""
        cfg = self.path(name + ".cfg")
        with open(cfg, "w") as f:
            f.write(cfg_text)
        out = self.path(name + ".out")
        meta = self.path(name + ".meta")
        e = dict(os.environ)
        jopts = "-Xss1g"
        if deque:
            jopts += " -Dtlc2.tool.queue.IStateQueue=StateDeque"
        e["JAVA_TOOL_OPTIONS"] = jopts
        if env:
            e.update({k: str(v) for k, v in env.items()})
        cmd = ["timeout", str(timeout), "java", "-Xmx" + xmx, "-XX:+UseParallelGC", "-cp",
               "/opt/veriftools/tla/tla2tools.jar:/opt/veriftools/tla/CommunityModules-deps.jar", "tlc2.TLC"]
        cmd = ["timeout", str(timeout), "tlc"]
        cmd += ["-workers", str(workers), "-metadir", meta, "-cleanup", "-noGenerateSpecTE", "-seed", str(seed())]
        if coverage:
            cmd += ["-coverage", "1"]
        if simulate:
            cmd += ["-simulate", "num=%d" % simulate, "-depth", str(depth or 100)]
        cmd += ["-config", cfg, module + ".tla"]
        t = time.time()
        with open(out, "w") as fo:
            p = subprocess.run(cmd, cwd=SPEC, env=e, stdout=fo, stderr=subprocess.STDOUT)
        shutil.rmtree(meta, ignore_errors=True)
        res = {"out": out, "rc": p.returncode, "wall": time.time() - t, "states": 0, "transitions": 0, "errors": []}
        with open(out, errors="replace") as f:
            for line in f:
                if line.startswith("<<"):
                    continue
                m = re.match(r"(\d+) states generated, (\d+) distinct states found", line)
                if m:
                    res["transitions"] = int(m.group(1))
                    res["states"] = int(m.group(2))
                m = re.match(r"The number of states generated: (\d+)", line)
                if m:
                    res["transitions"] = int(m.group(1))
                    res["states"] = max(res["states"], int(m.group(1)))
                if line.startswith("Error:") or "Exception" in line:
                    res["errors"].append(line.strip())
        if p.returncode == 124:
            raise ToolError("TLC timed out on %s (%s)" % (module, name))
        res["ok"] = p.returncode == 0 and not res["errors"]
        self.tlc_runs.append({"module": module, "cfg": name, "states": res["states"], "transitions": res["transitions"],
                              "wall_s": round(res["wall"], 1), "mode": "simulate" if simulate else "bfs",
                              "ok": res["ok"]})
        if not expect_fail:
            self.states += res["states"]
            self.transitions += res["transitions"]
        return res

    def tlc_tail(self, res, n=40):
        lines = [l for l in open(res["out"], errors="replace") if not l.startswith('<<"REPLAY"')]
        return "".join(lines[-n:])

    def require_tlc_ok(self, res, what):
        """A failure of a pure design-level TLC run is a defect of the specification, not of darling."""
        if not res["ok"]:
            raise ToolError("TLC reported an error in %s (specification-level):\n%s" % (what, self.tlc_tail(res)))

    # ------------------------------------------------------------------ results
    def add_replay_result(self, module, r, keyfn=None):
        """Fold the summary object printed by `vh replay ...` into this run."""
        self.replayed += r.get("cases", 0)
        self.evaluations += r.get("cases", 0)
        self.model_drift += r.get("model_drift", 0)
        self.unspecified += r.get("unspecified", 0)
        for m in r.get("model", [])[:3]:
            if len(self.drift_samples) < 5:
                self.drift_samples.append(m)
        for s in r.get("samples", []):
            if len(self.samples) < 6:
                self.samples.append({"module": module, "case": s})
        for m in r.get("prop", []):
            key = m.get("key") or (keyfn(m) if keyfn else None) or hashlib.sha1(
                json.dumps(m.get("case"), sort_keys=True).encode()).hexdigest()[:12]
            self.violations.append((key, "; ".join(m.get("why", []))[:600], {"module": module, "case": m.get("case"), "why": m.get("why")}))
        extra = r.get("prop_mismatch", 0) - len(r.get("prop", []))
        if extra > 0:
            self.notes.append("%d further property-level mismatches in %s not listed individually" % (extra, module))
        for k, v in r.get("counts", {}).items():
            self.extra[k] = self.extra.get(k, 0) + v
        if "distinct" in r:
            self.extra["distinct_cases"] = self.extra.get("distinct_cases", 0) + r["distinct"]

    def violation(self, key, desc, payload):
        self.violations.append((key, desc, payload))

    # ------------------------------------------------------------------ finish
    def finish(self, level, rule, extra_cov=None):
        known = load_known()
        mine = [k for k in known.get("known", []) if k["property"] == self.pid]
        fresh = []
        hit = {}
        for key, desc, payload in self.violations:
            matched = None
            for k in mine:
                if re.search(k["match"], key):
                    matched = k
                    break
            if matched:
                hit.setdefault(matched["id"], [matched, 0])[1] += 1
            else:
                fresh.append((key, desc, payload))
        for kid, (k, n) in sorted(hit.items()):
            log("KNOWN-FINDING: property=%s %s [%s; %d case(s) this run]" % (self.pid, k["what"], kid, n))
        os.makedirs(os.path.join(VERIF, "replays"), exist_ok=True)
        printed = set()
        for key, desc, payload in fresh:
            if key in printed:
                continue
            printed.add(key)
            if len(printed) > 3:
                break
            h = hashlib.sha1(key.encode()).hexdigest()[:10]
            path = os.path.join(VERIF, "replays", "%s-%s.json" % (self.pid, h))
            payload = dict(payload, property=self.pid, key=key, why_short=desc)
            with open(path, "w") as f:
                json.dump(payload, f, indent=1)
            log("VIOLATION property=%s replay=%s" % (self.pid, path))
            log("  " + desc[:400])
        cov = {
            "states": self.states,
            "transitions": self.transitions,
            "traces_validated_against_impl": self.replayed + self.traces,
            "samples": self.samples[:6] or [{"note": "no sample recorded"}],
            "evaluations": self.evaluations + self.trace_events,
            "distinct_nontrivial": self.extra.get("distinct_cases", self.replayed + self.trace_events),
            "rule": rule,
            "exhaustive": self.exhaustive,
            "spec_to_impl_replayed": self.replayed,
            "impl_to_spec_traces": self.traces,
            "impl_to_spec_events": self.trace_events,
            "model_drift": self.model_drift,
            "model_drift_samples": self.drift_samples,
            "unspecified": self.unspecified,
            "tlc_runs": self.tlc_runs,
            "known_findings_hit": {k: v[1] for k, v in hit.items()},
            "notes": self.notes,
        }
        cov.update(self.extra)
        if extra_cov:
            cov.update(extra_cov)
        ev = {
            "property_id": self.pid,
            "tier": self.tier,
            "seed": seed(),
            "level": level,
            "coverage": cov,
            "assumptions": self.assumptions,
            "wall_s": round(time.time() - self.t0, 1),
            "violations": len(printed),
        }
        os.makedirs(os.path.join(VERIF, "evidence"), exist_ok=True)
        with open(os.path.join(VERIF, "evidence", self.pid + ".json"), "w") as f:
            json.dump(ev, f, indent=1)
        if self.model_drift:
            log("NOTE model-drift property=%s cases=%d (informational; the specification predicts more than the property states)" % (self.pid, self.model_drift))
        log("%s %s: states=%d transitions=%d replayed=%d trace_events=%d violations=%d known=%d wall=%.0fs" % (
            self.pid, self.tier, self.states, self.transitions, self.replayed, self.trace_events, len(printed),
            sum(v[1] for v in hit.values()), time.time() - self.t0))
        self.cleanup()
        return 1 if printed else 0


def load_known():
    p = os.path.join(VERIF, "KNOWN_FINDINGS.json")
    if os.path.exists(p):
        return json.load(open(p))
    return {"known": [], "fixed": []}


def corrupt_ndjson(src, dst, mutate):
    """Copy an ndjson trace, applying `mutate(list_of_events)` (selftest of the trace binding)."""
    ev = [json.loads(l) for l in open(src) if l.strip()]
    mutate(ev)
    with open(dst, "w") as f:
        for e in ev:
            f.write(json.dumps(e) + "\n")
