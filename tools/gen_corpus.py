#!/usr/bin/env python3
"""Declaration corpus for the receiver machines (DESIGN.md 2.3).

Writes, deterministically from the seed:
  <out>.ndjson   one abstract declaration per line (read by TLC as the constant `Corpus`)
  <out>.rs       the same declarations as real #[derive(..)] items + a dispatch table
                 (compiled into the `vhc` binary against /repo's working tree)

The corpus is input enumeration only: nothing here says what a declaration *means* (that is
Receiver.tla); the alphabets are the bounded input grammar of each root (names that hit each
field in each accepted / rejected form, an unknown name, a near miss, a literal).
"""
import argparse
import json
import random

CASE_RULES = ["none", "lowercase", "PascalCase", "camelCase", "snake_case", "SCREAMING_SNAKE_CASE", "kebab-case"]
ELEMENT_TRAITS = ["FromDeriveInput", "FromField", "FromVariant", "FromTypeParam", "FromAttributes"]


# ----------------------------------------------------------------------------- helpers (input grammar only)
def field_case(rule, s):
    if rule in ("none", "lowercase", "snake_case"):
        return s
    pas = "".join(w[:1].upper() + w[1:] for w in s.split("_"))
    if rule == "PascalCase":
        return pas
    if rule == "camelCase":
        return pas[:1].lower() + pas[1:]
    if rule == "SCREAMING_SNAKE_CASE":
        return s.upper()
    if rule == "kebab-case":
        return s.replace("_", "-")
    raise ValueError(rule)


def variant_case(rule, s):
    import re
    snake = re.sub(r"(?<!^)([A-Z])", r"_\1", s).lower()
    return {"none": s, "PascalCase": s, "lowercase": s.lower(), "camelCase": s[:1].lower() + s[1:],
            "snake_case": snake, "SCREAMING_SNAKE_CASE": snake.upper(), "kebab-case": snake.replace("_", "-")}[rule]


def ty(k, id=0):
    return {"k": k, "id": id}


def field(rust, t, rename="", default="none", skip=False, multiple=False, flatten=False, with_="none", transform="none", spelled=()):
    # spelled: options written out with the value that changes nothing (`skip = false`, `multiple = false`)
    return {"rust": rust, "rename": rename, "default": default, "skip": skip, "multiple": multiple, "flatten": flatten,
            "with": with_, "transform": transform, "ty": t, "spelled": list(spelled)}


class Corpus:
    def __init__(self):
        self.decls = []

    def add(self, d):
        d["id"] = len(self.decls) + 1
        d["ident"] = ("R%d" if d["kind"] == "struct" else "E%d") % d["id"]
        self.decls.append(d)
        return d["id"]

    def struct(self, fields, trait="FromMeta", root=False, rename_all="none", cdefault="none", ctransform="none",
               allow_unknown=False, from_word=False, from_none=False, attr_names=(), forward="none",
               forward_names=(), attrs_field="none", magic_ident=False, max_items=3, max_attrs=1):
        return self.add({"kind": "struct", "root": root, "trait": trait, "rename_all": rename_all, "cdefault": cdefault,
                         "ctransform": ctransform, "allow_unknown": allow_unknown, "from_word": from_word,
                         "from_none": from_none, "attr_names": list(attr_names), "forward": forward,
                         "forward_names": list(forward_names), "attrs_field": attrs_field, "magic_ident": magic_ident,
                         "fields": fields, "variants": [], "max_items": max_items, "max_attrs": max_attrs, "alpha": []})

    def enum(self, variants, rename_all="none", from_word=False, from_none=False, allow_unknown=False):
        # `allow_unknown_fields` exists on the enum only; its struct variants inherit it
        for v in variants:
            if v["sid"]:
                self.decls[v["sid"] - 1]["allow_unknown"] = allow_unknown
        return self.add({"kind": "enum", "root": False, "trait": "FromMeta", "rename_all": rename_all, "cdefault": "none",
                         "ctransform": "none", "allow_unknown": allow_unknown, "from_word": from_word,
                         "from_none": from_none, "attr_names": [], "forward": "none", "forward_names": [],
                         "attrs_field": "none", "magic_ident": False, "fields": [], "variants": variants,
                         "max_items": 0, "max_attrs": 0, "alpha": []})

    def variant(self, rust, style="unit", rename="", skip=False, word=False, t=None, fields=None, wordf=False):
        sid = 0
        if style == "struct":
            sid = self.struct(fields, trait="variant")
        return {"rust": rust, "rename": rename, "skip": skip, "word": word, "wordf": wordf, "style": style,
                "ty": t or ty("val"), "sid": sid}


# ----------------------------------------------------------------------------- alphabets
def lit(code):
    return {"k": "lit", "name": "", "form": "", "val": code, "items": []}


def meta(name, form, val="", items=()):
    return {"k": "meta", "name": name, "form": form, "val": val, "items": list(items)}


def eff_field(rule, f):
    return f["rename"] or field_case(rule, f["rust"])


def enum_rule(e):
    return "snake_case" if e["rename_all"] == "none" else e["rename_all"]


def writable(name):
    return "-" not in name


def value_items(c, name, f, depth, rng):
    """Items addressing field `f` under `name`: each accepted form, each rejected form."""
    t = {"k": "val", "id": 0} if f["multiple"] else f["ty"]
    k = t["k"]
    out = []
    if k in ("val", "opt"):
        out += [meta(name, "nv", "s:v1"), meta(name, "nv", "i:5"), meta(name, "word")]
        if f["transform"] == "and_then":
            out.append(meta(name, "nv", "s:bad"))
        if rng.random() < 0.3:
            out.append(meta(name, "nv", "s:v2"))
    elif k == "u8":
        out += [meta(name, "nv", "i:5"), meta(name, "nv", "s:7"), meta(name, "nv", "i:300")]
    elif k == "bool":
        out += [meta(name, "word"), meta(name, "nv", "b:false"), meta(name, "nv", "s:x")]
    elif k == "flag":
        out += [meta(name, "word"), meta(name, "list"), meta(name, "nv", "b:true")]
    elif k == "recv":
        sub = c.decls[t["id"] - 1]
        out += [meta(name, "list", items=s) for s in nested_inputs(c, sub, sub["rename_all"], depth - 1, rng)]
        out += [meta(name, "word"), meta(name, "nv", "s:v1"), meta(name, "junk")]
    elif k == "enum":
        e = c.decls[t["id"] - 1]
        rule = enum_rule(e)
        for v in e["variants"]:
            vn = v["rename"] or variant_case(rule, v["rust"])
            if not writable(vn):
                out.append(meta(name, "nv", "s:" + vn))
                continue
            out.append(meta(name, "nv", "s:" + vn))
            out.append(meta(name, "list", items=[meta(vn, "word")]))
            if v["style"] == "struct":
                sub = c.decls[v["sid"] - 1]
                for s in nested_inputs(c, sub, rule, depth - 1, rng):        # incl. an unknown name, a bad value, a literal item
                    out.append(meta(name, "list", items=[meta(vn, "list", items=s)]))
                out.append(meta(name, "list", items=[meta(vn, "junk")]))
            elif v["style"] == "newtype":
                out.append(meta(name, "list", items=[meta(vn, "nv", "s:v1")]))
                out.append(meta(name, "list", items=[meta(vn, "nv", "i:5")]))
                if v["ty"]["k"] in ("recv", "map", "enum"):
                    # the inner type's own list forms - an empty list, a complete one, one with mistakes
                    fake = {"ty": v["ty"], "multiple": False, "transform": "none"}
                    for it in value_items(c, vn, fake, depth - 1, rng)[:6]:
                        if it["form"] == "list":
                            out.append(meta(name, "list", items=[it]))
            else:
                out.append(meta(name, "list", items=[meta(vn, "nv", "s:v1")]))
        first = e["variants"][0]
        fn = first["rename"] or variant_case(rule, first["rust"])
        out += [meta(name, "nv", "s:zz"), meta(name, "word"), meta(name, "list"), meta(name, "nv", "i:5"), meta(name, "junk"),
                meta(name, "list", items=[lit("s:x")]), meta(name, "list", items=[meta("zz", "word")])]
        if writable(fn):
            out.append(meta(name, "list", items=[meta("ns::" + fn, "word")]))       # a qualified path that merely ends in a variant's name
            out.append(meta(name, "list", items=[meta(fn, "word"), meta(fn, "word")]))
            out.append(meta(name, "list", items=[meta(fn[:-1] if len(fn) > 1 else fn + "x", "word")]))
    elif k == "map":
        out += [meta(name, "list"),
                meta(name, "list", items=[meta("k1", "nv", "s:v1")]),
                meta(name, "list", items=[meta("k1", "nv", "s:v1"), meta("k2", "nv", "s:v2")]),
                meta(name, "list", items=[meta("k1", "nv", "s:v1"), meta("k1", "nv", "s:v2")]),
                meta(name, "list", items=[meta("k1", "nv", "i:5"), meta("k1", "nv", "s:v2"), lit("s:x")]),
                meta(name, "list", items=[meta("k2", "nv", "i:5")]),
                meta(name, "word"), meta(name, "junk")]
    return out


MAP_SUB = {"fields": [], "rename_all": "", "flat_map": True}


def flat_sub(c, f):
    """The declaration a flatten member hands its items to; a map-typed member has no declaration of its own."""
    return MAP_SUB if f["ty"]["k"] == "map" else c.decls[f["ty"]["id"] - 1]


def alphabet(c, s, rule, depth, rng, parent_names=()):
    out = []
    names = []
    for f in s["fields"]:
        if f["skip"]:
            # the skipped field's own name is an interesting unknown name
            nm = eff_field(rule, f)
            if writable(nm):
                out.append(meta(nm, "nv", "s:v1"))
            continue
        if f["flatten"]:
            if f["ty"]["k"] == "map":
                # a map takes every name the receiver does not know: good, repeated, wrong-valued, wrong-form entries
                out += [meta("k1", "nv", "s:v1"), meta("k2", "nv", "s:v2"), meta("k1", "nv", "i:5"), meta("k2", "word"),
                        meta("k1", "list", items=[meta("a", "word")])]
                continue
            sub = c.decls[f["ty"]["id"] - 1]
            if depth > 0:
                out += alphabet(c, sub, sub["rename_all"], depth, rng)[:8]
            continue
        nm = eff_field(rule, f)
        if not writable(nm):
            continue
        names.append(nm)
        out += value_items(c, nm, f, depth, rng)
    out.append(meta("zzz", "nv", "s:v1"))
    if names:
        n0 = names[0]
        out.append(meta(n0[:-1] if len(n0) > 2 else n0 + "x", "nv", "s:v1"))
        # the Rust spelling when a rename / case rule hides it
        for f in s["fields"]:
            if not f["skip"] and not f["flatten"] and eff_field(rule, f) != f["rust"]:
                out.append(meta(f["rust"], "nv", "s:v1"))
                break
    out.append(lit("s:x"))
    # dedupe, keep order
    seen = set()
    res = []
    for it in out:
        key = json.dumps(it, sort_keys=True)
        if key not in seen:
            seen.add(key)
            res.append(it)
    return res


def nested_inputs(c, s, rule, depth, rng):
    """A few item sequences for a nested struct: empty, complete, with one mistake, with two mistakes."""
    if depth < 0:
        return [[]]
    al = alphabet(c, s, rule, depth, rng)
    good = []
    for f in s["fields"]:
        if f["skip"] or f["flatten"]:
            continue
        nm = eff_field(rule, f)
        if not writable(nm):
            continue
        items = value_items(c, nm, f, depth, rng)
        if items:
            good.append(items[0])
    seqs = [[], good]
    if good:
        seqs.append(good[:1])
        seqs.append(good + good[:1])                      # duplicate
        seqs.append(good[1:] + [meta("zzz", "word")])     # unknown (+ maybe missing)
        bad = [it for it in al if it not in good][:2]
        seqs.append(good[:1] + bad)
        seqs.append([lit("i:5")] + good)
    # dedupe
    out = []
    for q in seqs:
        if q not in out:
            out.append(q)
    return out


# ----------------------------------------------------------------------------- the corpus
def build(seed, tier, focus='all'):
    rng = random.Random(seed)
    c = Corpus()
    V, O, U, B, F = ty("val"), ty("opt"), ty("u8"), ty("bool"), ty("flag")

    def vec():
        return ty("vec")

    # --- reusable nested receivers -------------------------------------------------------------
    leaf = c.struct([field("x", V), field("y", O), field("n", U, default="trait")])
    leaf_req2 = c.struct([field("p", V), field("q", V)])
    leaf_fn = c.struct([field("x", V), field("flag", B, default="trait")], from_word=True, from_none=True)
    mid = c.struct([field("inner", ty("recv", leaf)), field("tag", V, default="fn")], rename_all="camelCase")
    deep = c.struct([field("mid_level", ty("recv", mid)), field("z", O)])
    e_plain = c.enum([c.variant("Shout", wordf=True), c.variant("Whisper"), c.variant("TalkLoud", rename="talk")])
    e_mixed = c.enum([
        c.variant("Off"),
        c.variant("Level", style="newtype", t=U),
        c.variant("MaybeName", style="newtype", t=O),
        c.variant("Verbose", style="newtype", t=B),          # an inner type with a bare-word meaning but no value-for-absent
        c.variant("Custom", style="struct", fields=[field("low", U), field("high", U, default="trait"), field("label", O)]),
        c.variant("Hidden", skip=True),
        c.variant("HiddenData", style="newtype", t=V, skip=True),
    ], rename_all="snake_case")
    e_word = c.enum([c.variant("Auto", word=True), c.variant("Manual"),
                     c.variant("Tuned", style="struct", fields=[field("hz", U), field("note", V)])],
                    rename_all="SCREAMING_SNAKE_CASE", allow_unknown=True)
    e_fn = c.enum([c.variant("First"), c.variant("SecondOne"), c.variant("Boxed", style="newtype", t=ty("recv", leaf_req2))],
                  rename_all="camelCase", from_word=True, from_none=True)
    e_pascal = c.enum([c.variant("AlphaBeta"), c.variant("Gamma", style="struct", fields=[field("inner_val", V)])],
                      rename_all="PascalCase")
    flat_inner = c.struct([field("width", U), field("label", O), field("extra", V, default="trait")])
    flat_mid = c.struct([field("depth", U, default="trait"), field("rest", ty("recv", flat_inner), flatten=True)])
    # `allow_unknown_fields = false` written out on the enum (the same as not writing it), a struct variant under it
    # a skipped variant is never produced - not even when it also claims the bare word
    e_skipword = c.enum([c.variant("Plain"), c.variant("Ghost", skip=True, word=True), c.variant("Other", rename="oth")])
    e_strict = c.enum([c.variant("Plain"), c.variant("Hello", style="struct", rename="hi", fields=[field("user", V), field("silent", B, default="trait")])])
    c.decls[e_strict - 1]["allow_unknown_false"] = True
    # a struct variant is parsed as a struct receiver: its own flatten member receives what it does not know
    e_flat = c.enum([c.variant("Off"), c.variant("Tuned", style="struct", fields=[field("level", U), field("extra", ty("recv", flat_inner), flatten=True)])],
                    rename_all="snake_case")
    enums = [e_plain, e_mixed, e_word, e_fn, e_pascal, e_strict, e_flat, e_skipword]

    # --- FromMeta roots: every single option on the designated field, each crossed with container options
    def root(fields, **kw):
        return c.struct(fields, root=True, **kw)

    singles = [
        dict(), dict(rename="vol"), dict(default="trait"), dict(default="fn"), dict(skip=True),
        dict(with_="path"), dict(with_="closure"), dict(transform="map"), dict(transform="and_then"),
    ]
    for o in singles:
        root([field("max_volume", V, **o), field("other", O)])
    root([field("max_volume", vec(), multiple=True), field("other", O)])
    pairs = [
        dict(rename="vol", default="fn"), dict(default="trait", transform="map"), dict(default="fn", transform="and_then"),
        dict(with_="path", transform="map"), dict(with_="closure", transform="and_then"), dict(skip=True, default="fn"),
        dict(rename="vol", with_="path"), dict(rename="vol", transform="and_then"), dict(skip=True, rename="vol"),
        dict(default="fn", with_="path", transform="map"),
    ]
    for o in pairs:
        root([field("max_volume", V, **o), field("other", U, default="trait")])
    mpairs = [dict(default="fn"), dict(transform="map"), dict(with_="path"), dict(rename="vol"), dict(default="trait", transform="and_then")]
    for o in mpairs:
        root([field("max_volume", vec(), multiple=True, **o), field("other", O)])
    # container options x field options
    for rule in CASE_RULES:
        root([field("max_volume", V), field("low_cut", O, rename="lc"), field("n", U, default="trait")], rename_all=rule)
    for cd in ("trait", "fn"):
        root([field("max_volume", V), field("other", O), field("sk", V, skip=True), field("own", V, default="fn")], cdefault=cd)
        root([field("max_volume", vec(), multiple=True), field("count", U), field("deep_one", ty("recv", leaf))], cdefault=cd)
    for ct in ("map", "and_then"):
        root([field("max_volume", V, transform="map"), field("other", O), field("third", V, default="trait")], ctransform=ct)
    root([field("max_volume", V), field("other", O)], allow_unknown=True)
    root([field("max_volume", V), field("other", O)], allow_unknown=True, cdefault="trait", rename_all="camelCase")
    # other scalar types, nesting, enums, maps
    root([field("level", U), field("on", B), field("maybe", O)])
    # a custom converter on a type that has a value-for-absent, and on a flag
    root([field("maybe", O, with_="path"), field("other", O, with_="closure", rename="o2"), field("name", V)])
    root([field("maybe", O, with_="path", default="fn"), field("quiet", F)], cdefault="trait")
    root([field("level", U, default="fn"), field("on", B, default="trait")])
    root([field("inner", ty("recv", leaf)), field("other", O)])
    root([field("inner", ty("recv", leaf_req2)), field("second", ty("recv", leaf), default="trait")])
    root([field("inner", ty("recv", leaf_fn)), field("other", O)])
    root([field("mid_one", ty("recv", mid)), field("other", O)], rename_all="PascalCase")
    root([field("deep_one", ty("recv", deep))], max_items=2)
    for e in enums:
        root([field("e", ty("enum", e)), field("other", O)], max_items=2)
    root([field("e", ty("enum", e_mixed), default="trait"), field("f", ty("enum", e_plain))], max_items=2)
    root([field("table", ty("map")), field("other", O)], max_items=2)
    root([field("table", ty("map"), default="trait"), field("inner", ty("recv", leaf))], max_items=2)
    # flatten
    root([field("name", V), field("rest", ty("recv", flat_inner), flatten=True)])
    root([field("name", V, default="trait"), field("rest", ty("recv", flat_inner), flatten=True)], allow_unknown=True)
    root([field("name", V), field("hidden_one", V, skip=True), field("rest", ty("recv", flat_mid), flatten=True)])
    root([field("first_name", O), field("rest", ty("recv", flat_inner), flatten=True)], rename_all="camelCase", cdefault="fn")

    # options spelled out with the value that changes nothing; names that are keywords (`crate = ".."` is an idiom)
    root([field("max_volume", V, spelled=["skip"]), field("tags", vec(), multiple=True, spelled=["skip"]), field("other", O, spelled=["multiple"])])
    root([field("max_volume", V, spelled=["skip"]), field("rest", ty("recv", flat_inner), flatten=True)])
    root([field("max_volume", O, spelled=["skip", "multiple"]), field("other", O)], allow_unknown=True)
    # .. on a member whose type has a value-for-absent of its own that differs from its `Default`
    root([field("inner", ty("recv", leaf_fn), spelled=["skip"]), field("second", ty("recv", leaf_fn), spelled=["skip", "multiple"]), field("other", O)], max_items=2)
    root([field("krate", V, rename="crate"), field("this", O, rename="self"), field("up", O, rename="super"), field("me", O, rename="Self")], max_items=2)

    # --- hostile-input roots (C07): flags, nested receivers / enums / maps fed bodies that are not meta syntax
    root([field("verbose", F), field("strict", F), field("other", O)], max_items=2)
    root([field("inner", ty("recv", leaf_fn)), field("e", ty("enum", e_word)), field("table", ty("map"), default="trait"), field("quiet", F)],
         max_items=2)
    # a flatten member that is a map: it keeps every name the receiver itself does not know (its errors are the map's:
    # a repeat on the name, a bad value on the value and under its key; nothing is unknown any more)
    root([field("name", V), field("rest", ty("map"), flatten=True)])
    root([field("name", V, default="trait"), field("hidden_one", V, skip=True), field("count", U, default="trait"),
          field("rest", ty("map"), flatten=True)], trait="FromDeriveInput", attr_names=["x"], max_items=3, max_attrs=2)
    mapflat_inner = c.struct([field("label", O), field("rest", ty("map"), flatten=True)])
    root([field("name", V, default="trait"), field("inner", ty("recv", mapflat_inner)), field("more", ty("recv", mapflat_inner), flatten=True)],
         max_items=2)
    # --- suggestion scoping (C17): a flatten member that itself has a nested (non-flatten) receiver
    flat_nest = c.struct([field("parent_opt", ty("recv", leaf_req2)), field("wide", U, default="trait")])
    root([field("blast", V, default="trait"), field("pq", O), field("rest", ty("recv", flat_nest), flatten=True)], max_items=2)
    root([field("width_max", O), field("hidden_one", V, skip=True), field("rest", ty("recv", flat_mid), flatten=True)], max_items=2)
    # three flatten levels whose names are all close to each other (the best match sits in the middle)
    chain_inner = c.struct([field("max_entries", O), field("skip_if", O)])
    chain_mid = c.struct([field("max_retries", O), field("rest", ty("recv", chain_inner), flatten=True)])
    root([field("max_tries", O), field("skip", O), field("rest", ty("recv", chain_mid), flatten=True)], max_items=2)
    # the same chain, but the middle level has a mistake of its own (a required member that is absent): the innermost
    # level's bundle of two unknown names then arrives nested inside the middle level's bundle, not spliced into it
    chain_mid_req = c.struct([field("needed", V), field("max_retries", O), field("rest", ty("recv", chain_inner), flatten=True)])
    pair_root = root([field("max_tries", O), field("skip", O), field("rest", ty("recv", chain_mid_req), flatten=True)], max_items=2)
    c.decls[pair_root - 1]["suggest_pairs"] = True      # suggest focus: one near miss per name, every pair of them
    # --- element-level roots --------------------------------------------------------------------
    for i, tr in enumerate(ELEMENT_TRAITS):
        kw = dict(trait=tr, attr_names=["x"], max_items=3, max_attrs=3)
        root([field("max_volume", V), field("other", O)], **kw)
        root([field("max_volume", vec(), multiple=True), field("level", U, default="trait")],
             trait=tr, attr_names=["x", "y"], max_items=2, max_attrs=3,
             forward=("none" if tr == "FromAttributes" else "all"),
             attrs_field=("none" if tr == "FromAttributes" else "plain"), magic_ident=(tr != "FromAttributes"))
        if tr != "FromAttributes":
            root([field("max_volume", V, default="fn"), field("inner", ty("recv", leaf), default="trait")],
                 trait=tr, attr_names=["x"], max_items=2, max_attrs=3, forward="only", forward_names=["keep", "doc"],
                 attrs_field="plain", magic_ident=True, rename_all="camelCase")
    root([field("name", V), field("rest", ty("recv", flat_inner), flatten=True)], trait="FromDeriveInput",
         attr_names=["x"], max_items=3, max_attrs=2)
    # a flatten member that itself holds a nested receiver: a name rejected inside `sub(..)` is not the flatten member's
    # business even when the same list also holds a name it rejects directly
    nest_holder = c.struct([field("sub", ty("recv", leaf), default="trait"), field("gamma", O)])
    root([field("alpha", V, default="trait"), field("rest", ty("recv", nest_holder), flatten=True)], max_items=2)
    # a forward list that leaves `doc` out: doc comments are attributes like any other
    root([field("max_volume", V, default="trait")], trait="FromField", attr_names=["x"], forward="only", forward_names=["keep"], attrs_field="plain", max_items=1, max_attrs=3)
    root([], trait="FromTypeParam", attr_names=["x"], forward="only", forward_names=["tool::x", "keep"], attrs_field="plain", magic_ident=True, max_items=1, max_attrs=3)
    # a receiver whose only own member is the flatten member: several attributes still read as one list
    root([field("rest", ty("recv", flat_inner), flatten=True)], trait="FromVariant", attr_names=["x"], magic_ident=True, max_items=2, max_attrs=3)
    root([field("rest", ty("recv", flat_inner), flatten=True), field("hidden", V, skip=True)], trait="FromAttributes", attr_names=["x"], max_items=2, max_attrs=2)
    # an attribute name of several segments is a name like any other
    root([field("max_volume", V), field("other", O)], trait="FromField", attr_names=["ns::y"], max_items=2, max_attrs=2)
    root([field("max_volume", V, default="trait")], trait="FromDeriveInput", attr_names=["x", "ns::y"], forward="only", forward_names=["ns::keep", "doc"],
         attrs_field="plain", max_items=2, max_attrs=2)
    # marker receivers: `attributes(..)` but no ordinary field at all
    for tr in ("FromDeriveInput", "FromVariant", "FromTypeParam"):
        root([], trait=tr, attr_names=["x"], forward="all", attrs_field="plain", magic_ident=True, max_items=2, max_attrs=3)
    root([], trait="FromField", attr_names=["x", "y"], forward="only", forward_names=["doc"], attrs_field="plain", max_items=1, max_attrs=3)
    # nothing read, nothing forwarded, yet an `attrs` member
    root([field("max_volume", V, default="trait")], trait="FromDeriveInput", attr_names=[], forward="empty", attrs_field="plain",
         max_items=1, max_attrs=2)
    root([field("max_volume", V, default="trait")], trait="FromField", attr_names=[], forward="empty", attrs_field="plain",
         max_items=1, max_attrs=2)
    root([field("e", ty("enum", e_mixed)), field("other", O)], trait="FromField", attr_names=["x"], max_items=2, max_attrs=2)
    root([field("max_volume", V), field("sk", V, skip=True)], trait="FromDeriveInput", attr_names=["x"], cdefault="from_ident",
         max_items=2, max_attrs=2, magic_ident=True)

    # --- seeded random declarations over the whole option product --------------------------------
    nrand = 12 if tier == "quick" else 80
    for _ in range(nrand):
        nf = rng.randint(1, 3)
        fields = []
        used = set()
        for j in range(nf):
            rust = rng.choice(["max_volume", "low_cut", "n", "side_chain_in", "gain"])
            if rust in used:
                continue
            used.add(rust)
            kind = rng.choice(["val", "val", "opt", "vec", "u8", "bool", "recv", "enum", "map"])
            o = {}
            if rng.random() < 0.3:
                o["rename"] = rng.choice(["vol", "v2", "Gain"]) + str(j)
            if kind == "vec":
                o["multiple"] = True
            if kind in ("val", "vec"):
                o["with_"] = rng.choice(["none", "none", "path", "closure"])
                o["transform"] = rng.choice(["none", "none", "map", "and_then"])
            if kind != "enum":
                o["default"] = rng.choice(["none", "none", "trait", "fn"])
            if kind not in ("vec", "enum") and rng.random() < 0.15:
                o["skip"] = True
            t = {"val": V, "opt": O, "vec": vec(), "u8": U, "bool": B, "map": ty("map")}.get(kind)
            if kind == "recv":
                t = ty("recv", rng.choice([leaf, leaf_req2, leaf_fn, mid]))
            if kind == "enum":
                t = ty("enum", rng.choice(enums))
            fields.append(field(rust, t, **o))
        flat = rng.random() < 0.2
        if flat:
            fields.append(field("rest", ty("recv", rng.choice([flat_inner, flat_mid])), flatten=True))
        rule = rng.choice(CASE_RULES)
        # avoid colliding effective names (first-arm-wins is Rust's business, not darling's)
        effs = [eff_field(rule, f) for f in fields if not f["skip"] and not f["flatten"]]
        if len(set(effs)) != len(effs):
            continue
        tr = rng.choice(["FromMeta", "FromMeta", "FromMeta"] + ELEMENT_TRAITS)
        kw = dict(rename_all=rule, cdefault=rng.choice(["none", "none", "trait", "fn"]),
                  ctransform=rng.choice(["none", "none", "map", "and_then"]),
                  allow_unknown=(rng.random() < 0.2), max_items=2 if len(fields) > 2 else 3)
        if tr != "FromMeta":
            kw.update(trait=tr, attr_names=["x"], max_attrs=2)
            if tr != "FromAttributes" and rng.random() < 0.5:
                kw.update(forward=rng.choice(["all", "only"]), forward_names=["doc"], attrs_field="plain")
        root(fields, **kw)

    # the focus decides which declarations are entry points of this run
    for d in c.decls:
        if not d["root"]:
            continue
        is_elem = d["trait"] != "FromMeta"
        has_enum = any(f["ty"]["k"] == "enum" for f in d["fields"])
        keep = {"all": True, "struct": not is_elem and not has_enum, "element": is_elem, "enum": has_enum,
                "suggest": not is_elem or d["max_attrs"] == 2, "clean": True,
                "hostile": any(f["ty"]["k"] in ("enum", "flag", "recv", "map") for f in d["fields"]) or d["attrs_field"] != "none"}[focus]
        if focus != "suggest":
            d.pop("suggest_pairs", None)
        d["entry"] = True      # stays in the dispatch table whatever the focus
        d["root"] = keep
    # quick tier: element-level roots get 2 attributes x 2 items, except the first two per trait-independent
    # "deep" roots which keep 3 x 3 over a 3-letter alphabet
    if tier != "quick" and focus == "enum":
        # the attribute walk of element-level roots is the `element` focus's business (three items x two attributes over
        # eight letters is 40 000 states per root); here they keep the quick tier's two items
        for d in c.decls:
            if d["root"] and d["trait"] != "FromMeta":
                d["max_items"] = min(d["max_items"], 2)
    # element-level roots get 2 attributes x 2 items, except the first two (thorough: six) "deep" roots, which keep
    # 3 x 3 over a 3-letter (4-letter) alphabet: the attribute walk multiplies every item sequence by its splits and
    # by the unrelated attributes interleaved with them (3 x 3 over 8 letters is 40 000 states per root)
    if True:
        deep = 0
        for d in c.decls:
            if d["root"] and d["trait"] != "FromMeta":
                if deep < (2 if tier == "quick" else 6) and d["max_items"] == 3 and d["max_attrs"] == 3:
                    deep += 1
                    d["deep"] = True
                else:
                    d["max_items"] = min(d["max_items"], 2)
                    d["max_attrs"] = min(d["max_attrs"], 2)
    # alphabets of the roots, capped so that |alphabet|^max_items stays within the tier's budget
    for d in c.decls:
        if d["root"]:
            al = alphabet(c, d, d["rename_all"], 2, rng)
            elem = d["trait"] != "FromMeta"
            if focus == "suggest":
                al_s = suggest_alphabet(c, d, rng)
                if d.pop("suggest_pairs", False):
                    # two rejected names in one list: the innermost level's answer is a bundle of its own
                    d.pop("deep_chain", None)
                    names = [n for n in level_names(c, d, d["rename_all"]) if writable(n)]
                    d["alpha"] = [meta(n[:-1], "nv", "s:v1") for n in names] + [meta(n[1:], "nv", "s:v1") for n in names[:4]] + [meta("zzz", "nv", "s:v1")]
                    d["max_items"] = 2
                    d["max_attrs"] = 1
                    continue
                d["alpha"] = al_s[: (80 if d.pop("deep_chain", False) or tier != "quick" else 30)]
                d["max_items"] = 2 if len(d["alpha"]) <= 24 else 1
                d["max_attrs"] = 1
                continue
            if focus == "clean":
                # mistake-free inputs: only forms the field's type accepts, no unknown names / literals
                al = [it for it in al if is_good(c, d, d["rename_all"], it)]
                d["max_items"] = min(4, max(3, d["max_items"])) if not elem else d["max_items"]
                d["alpha"] = cap_alphabet(al, 6 if not elem else 4, rng)
                continue
            if tier == "quick":
                cap = {1: 40, 2: 22, 3: 10}[d["max_items"]] if not elem else {1: 12, 2: 8, 3: 5}[d["max_items"]]
            else:
                cap = {1: 80, 2: 45, 3: 18}[d["max_items"]] if not elem else {1: 20, 2: 12, 3: 8}[d["max_items"]]
            if d.pop("deep", False):
                cap = 3 if tier == "quick" else 4
            if any(f["ty"]["k"] == "enum" for f in d["fields"]) and not elem:
                # every variant's forms stay in the alphabet; three items over that many letters would be 40 000 inputs per root
                cap = max(cap, 40)
                d["max_items"] = min(d["max_items"], 2)
            d["alpha"] = cap_alphabet(al, cap, rng)
    return c


def is_good(c, s, rule, it):
    """Input-grammar helper: does this item look acceptable to the field it addresses (used only to bias
    the `clean` focus towards mistake-free inputs; the verdict itself is always the specification's)."""
    if it["k"] == "lit":
        return False
    for f in s["fields"]:
        if f["flatten"]:
            if f["ty"]["k"] == "map":
                if it["form"] == "nv" and it["val"].startswith("s:") and it["val"] != "s:bad" and \
                        not any(not g["flatten"] and not g["skip"] and eff_field(rule, g) == it["name"] for g in s["fields"]):
                    return True
                continue
            sub = c.decls[f["ty"]["id"] - 1]
            if is_good(c, sub, sub["rename_all"], it):
                return True
            continue
        if f["skip"] or eff_field(rule, f) != it["name"]:
            continue
        k = "val" if f["multiple"] else f["ty"]["k"]
        if it["form"] == "junk":
            return False
        if k == "flag":
            return it["form"] == "word"
        if k in ("val", "opt"):
            return it["form"] == "nv" and it["val"].startswith("s:") and it["val"] != "s:bad"
        if k == "u8":
            return it["form"] == "nv" and it["val"] in ("i:5", "s:7")
        if k == "bool":
            return it["form"] == "word" or it["val"] in ("b:false", "b:true")
        if k == "recv":
            sub = c.decls[f["ty"]["id"] - 1]
            return it["form"] == "list" and all(is_good(c, sub, sub["rename_all"], x) for x in it["items"]) \
                and len(set(x["name"] for x in it["items"])) == len(it["items"])
        if k == "map":
            return it["form"] == "list" and all(x["k"] == "meta" and x["val"].startswith("s:") for x in it["items"]) \
                and len(set(x["name"] for x in it["items"])) == len(it["items"])
        if k == "enum":
            return it["form"] != "list" or len(it["items"]) == 1
    return False


def misspell(n, rng):
    outs = set()
    if len(n) > 2:
        outs.add(n[:-1])
        outs.add(n[1:])
        i = rng.randrange(len(n) - 1)
        outs.add(n[:i] + n[i + 1] + n[i] + n[i + 2:])
        outs.add(n[:i] + "x" + n[i + 1:])
    outs.add(n + "s")
    outs.add(n + "_x")
    if len(n) > 5:
        outs.add(n[:-3])          # three characters shorter / longer: the outer edge of the edit-distance range
    outs.add(n + "ped")
    if n.endswith("ies"):
        outs.add(n[:-3] + "y")
    return [o for o in outs if o and o != n and writable(o) and o[0].isalpha()]


def level_names(c, s, rule):
    own = [eff_field(rule, f) for f in s["fields"] if not f["flatten"]]        # incl. skipped ones
    for f in s["fields"]:
        if f["flatten"]:
            sub = flat_sub(c, f)
            own += level_names(c, sub, sub["rename_all"])
    return own


def suggest_alphabet(c, d, rng):
    """Unknown names at small edit distance from every name of every level reachable from this root
    (own, skipped, flatten members', nested receivers', enum variants'), placed at every level."""
    rule = d["rename_all"]
    names = [n for n in level_names(c, d, rule) if writable(n)]
    nested = []
    for f in d["fields"]:
        t = f["ty"]
        stack = [t]
        if f["flatten"]:
            stack = [x["ty"] for x in flat_sub(c, f)["fields"]]
        for t in stack:
            if t["k"] == "recv":
                sub = c.decls[t["id"] - 1]
                nested.append((f, sub))
    near = []
    for n in names:
        near += misspell(n, rng)
    near += [n for f in d["fields"] if f["skip"] for n in [eff_field(rule, f)] if writable(n)]
    rng.shuffle(near)
    # a flatten chain of depth >= 2 improves one suggestion more than once on the way out: every near miss of every level
    deep_chain = any(f["flatten"] and any(g["flatten"] for g in flat_sub(c, f)["fields"]) for f in d["fields"])
    d["deep_chain"] = deep_chain
    out = [meta(n, "nv", "s:v1") for n in (sorted(set(near)) if deep_chain else near[:14])]
    # inside nested (non-flatten) receivers: names close to the OUTER level's names and to the inner ones
    for f in d["fields"]:
        for t, holder in ([(f["ty"], d)] if not f["flatten"] else [(x["ty"], flat_sub(c, f)) for x in flat_sub(c, f)["fields"]]):
            if t["k"] != "recv":
                continue
            sub = c.decls[t["id"] - 1]
            fname = next(eff_field(holder["rename_all"], x) for x in holder["fields"] if x["ty"] is t)
            if not writable(fname):
                continue
            inner_names = [n for n in level_names(c, sub, sub["rename_all"]) if writable(n)]
            cand = [m for n in names[:3] + inner_names[:2] for m in misspell(n, rng)[:2]]
            for m in cand[:4]:
                out.append(meta(fname, "list", items=[meta(m, "nv", "s:v1")]))
                out.append(meta(fname, "list", items=[meta(m, "nv", "s:v1"), meta("zzz", "word")]))
        if f["ty"]["k"] == "enum" and not f["flatten"]:
            e = c.decls[f["ty"]["id"] - 1]
            fname = eff_field(rule, f)
            for v in e["variants"]:
                vn = v["rename"] or variant_case(enum_rule(e), v["rust"])
                if writable(vn) and writable(fname):
                    for m in misspell(vn, rng)[:2] + ([vn] if v["skip"] else []):
                        out.append(meta(fname, "list", items=[meta(m, "word")]))
                        out.append(meta(fname, "nv", "s:" + m))          # the string form names a value, not a field: no suggestion
    seen = set()
    res = []
    for it in out:
        key = json.dumps(it, sort_keys=True)
        if key not in seen:
            seen.add(key)
            res.append(it)
    return res


def cap_alphabet(al, cap, rng):
    """Keep the specials (unknown, near miss, literal) and one item per distinct (name, form); fill up randomly."""
    if len(al) <= cap:
        return al
    keep = []
    seen = set()
    specials = [it for it in al if it["k"] == "lit" or it["name"] == "zzz"]
    for it in al:
        key = (it["name"], it["form"], it["val"], json.dumps(it["items"][:1], sort_keys=True)[:60])
        if key not in seen and it not in specials:
            seen.add(key)
            keep.append(it)
    rest = [it for it in al if it not in keep and it not in specials]
    rng.shuffle(rest)
    rng.shuffle(keep)
    out = specials[:3] + keep
    out = out[:cap]
    out += rest[:max(0, cap - len(out))]
    # restore the original order (stable REPLAY output)
    return [it for it in al if it in out]


# ----------------------------------------------------------------------------- Rust rendering
def rust_ty(c, t, f=None):
    k = t["k"]
    if k == "val":
        return "Val"
    if k == "opt":
        return "Option<Val>"
    if k == "vec":
        return "Vec<Val>"
    if k == "u8":
        return "u8"
    if k == "bool":
        return "bool"
    if k == "map":
        return "HashMap<String, Val>"
    if k == "flag":
        return "darling::util::Flag"
    return c.decls[t["id"] - 1]["ident"]


def darling_opts_field(d, f):
    o = []
    if f["rename"]:
        o.append('rename = "%s"' % f["rename"])
    if f["default"] == "trait":
        o.append("default")
    if f["default"] == "fn":
        o.append('default = "fd_%s_%s"' % (d["ident"], f["rust"]))
    if f["skip"]:
        o.append("skip")
    if f["multiple"]:
        o.append("multiple")
    o += ["%s = false" % w for w in f.get("spelled", [])]
    if f["flatten"]:
        o.append("flatten")
    wfn = "w_opt" if f["ty"]["k"] == "opt" else "w_val"
    if f["with"] == "path":
        o.append("with = %s" % wfn)
    if f["with"] == "closure":
        o.append("with = |m| %s(m)" % wfn)
    if f["transform"] == "map":
        o.append('map = "m_val"')
    if f["transform"] == "and_then":
        o.append('and_then = "t_val"')
    return o


def render_struct(c, d, out):
    name = d["ident"]
    if d["trait"] == "variant":
        return  # rendered inline in its enum
    co = []
    if d["rename_all"] != "none":
        co.append('rename_all = "%s"' % d["rename_all"])
    if d["cdefault"] == "trait":
        co.append("default")
    if d["cdefault"] == "fn":
        co.append('default = "cfn_%s"' % name)
    if d["cdefault"] == "from_ident":
        co.append("from_ident")
    if d["ctransform"] == "map":
        co.append('map = "cm_%s"' % name)
    if d["ctransform"] == "and_then":
        co.append('and_then = "ct_%s"' % name)
    if d["allow_unknown"]:
        co.append("allow_unknown_fields")
    if d["from_word"]:
        co.append("from_word = fw_%s" % name)
    if d["from_none"]:
        co.append("from_none = fnone_%s" % name)
    if d["attr_names"]:
        co.append("attributes(%s)" % ", ".join(d["attr_names"]))
    if d["forward"] == "all":
        co.append("forward_attrs")
    if d["forward"] == "only":
        co.append("forward_attrs(%s)" % ", ".join(d["forward_names"]))
    if d["forward"] == "empty":
        co.append("forward_attrs()")
    out.append("#[derive(Debug, Clone, darling::%s)]" % d["trait"])
    if co:
        out.append("#[darling(%s)]" % ", ".join(co))
    out.append("pub struct %s {" % name)
    if d["magic_ident"]:
        out.append("    pub ident: %s," % ("syn::Ident" if d["trait"] != "FromField" else "Option<syn::Ident>"))
    if d["attrs_field"] != "none":
        out.append("    pub attrs: Vec<syn::Attribute>,")
    for f in d["fields"]:
        fo = darling_opts_field(d, f)
        if fo:
            out.append("    #[darling(%s)]" % ", ".join(fo))
        out.append("    pub %s: %s," % (f["rust"], rust_ty(c, f["ty"])))
    out.append("}")
    magic_init = ""
    if d["magic_ident"]:
        magic_init += "ident: %s, " % ('syn::Ident::new("Marked", proc_macro2::Span::call_site())' if d["trait"] != "FromField"
                                       else "None")
    if d["attrs_field"] != "none":
        magic_init += "attrs: vec![], "
    inits = lambda mark: ", ".join('%s: Marked::marked(%s, "%s")' % (f["rust"], mark, f["rust"]) for f in d["fields"])
    out.append("impl Marked for %s { fn marked(m: &str, _f: &str) -> Self { %s { %s%s } } }" % (name, name, magic_init, inits("m")))
    out.append('impl Default for %s { fn default() -> Self { <%s as Marked>::marked("cd", "") } }' % (name, name))
    out.append('#[allow(dead_code)] fn cfn_%s() -> %s { <%s as Marked>::marked("cfn", "") }' % (name, name, name))
    out.append('#[allow(dead_code)] fn fw_%s() -> darling::Result<%s> { Ok(<%s as Marked>::marked("fw", "")) }' % (name, name, name))
    out.append('#[allow(dead_code)] fn fnone_%s() -> Option<%s> { Some(<%s as Marked>::marked("fn", "")) }' % (name, name, name))
    if d["cdefault"] == "from_ident":
        out.append('impl From<syn::Ident> for %s { fn from(_i: syn::Ident) -> Self { <%s as Marked>::marked("fi", "") } }' % (name, name))
    for f in d["fields"]:
        if f["default"] == "fn":
            out.append('fn fd_%s_%s() -> %s { Marked::marked("fd", "%s") }' % (name, f["rust"], rust_ty(c, f["ty"]), f["rust"]))
    wraps = [f["rust"] for f in d["fields"] if f["ty"]["k"] == "val" and not f["multiple"]]
    out.append("#[allow(dead_code, unused_mut)] fn cm_%s(mut r: %s) -> %s { %s r }" % (name, name, name, " ".join("cm(&mut r.%s);" % w for w in wraps)))
    out.append("#[allow(dead_code, unused_mut)] fn ct_%s(mut r: %s) -> darling::Result<%s> { %s Ok(r) }" % (name, name, name, " ".join("ct(&mut r.%s);" % w for w in wraps)))
    out.append("impl Proj for %s { fn proj(&self) -> Value { Value::Array(vec![%s]) } }" % (
        name, ", ".join("self.%s.proj()" % f["rust"] for f in d["fields"])))
    if d["attrs_field"] != "none" or d["magic_ident"]:
        out.append("impl Magic for %s { fn fwd(&self) -> Option<&Vec<syn::Attribute>> { %s } fn ident_s(&self) -> Option<String> { %s } }" % (
            name, "Some(&self.attrs)" if d["attrs_field"] != "none" else "None",
            ("Some(self.ident.to_string())" if d["trait"] != "FromField" else "self.ident.as_ref().map(|i| i.to_string())") if d["magic_ident"] else "None"))
    else:
        out.append("impl Magic for %s {}" % name)
    out.append("")


def render_enum(c, d, out):
    name = d["ident"]
    co = []
    if d["rename_all"] != "none":
        co.append('rename_all = "%s"' % d["rename_all"])
    if d["from_word"]:
        co.append("from_word = fw_%s" % name)
    if d["from_none"]:
        co.append("from_none = fnone_%s" % name)
    if d["allow_unknown"]:
        co.append("allow_unknown_fields")
    if d.get("allow_unknown_false"):
        co.append("allow_unknown_fields = false")
    out.append("#[derive(Debug, Clone, darling::FromMeta)]")
    if co:
        out.append("#[darling(%s)]" % ", ".join(co))
    out.append("pub enum %s {" % name)
    proj = []
    for v in d["variants"]:
        vo = []
        if v["rename"]:
            vo.append('rename = "%s"' % v["rename"])
        if v["skip"]:
            vo.append("skip")
        if v["word"]:
            vo.append("word")
        if v["wordf"]:
            vo.append("word = false")
        if vo:
            out.append("    #[darling(%s)]" % ", ".join(vo))
        if v["style"] == "unit":
            out.append("    %s," % v["rust"])
            proj.append('%s::%s => json!(["%s"])' % (name, v["rust"], v["rust"]))
        elif v["style"] == "newtype":
            out.append("    %s(%s)," % (v["rust"], rust_ty(c, v["ty"])))
            proj.append('%s::%s(x) => json!(["%s", x.proj()])' % (name, v["rust"], v["rust"]))
        else:
            s = c.decls[v["sid"] - 1]
            out.append("    %s {" % v["rust"])
            for f in s["fields"]:
                fo = darling_opts_field(s, f)
                if fo:
                    out.append("        #[darling(%s)]" % ", ".join(fo))
                out.append("        %s: %s," % (f["rust"], rust_ty(c, f["ty"])))
            out.append("    },")
            names = [f["rust"] for f in s["fields"]]
            proj.append('%s::%s { %s } => json!(["%s", Value::Array(vec![%s])])' % (
                name, v["rust"], ", ".join(names), v["rust"], ", ".join("%s.proj()" % n for n in names)))
            for f in s["fields"]:
                if f["default"] == "fn":
                    out.append("")
    out.append("}")
    for v in d["variants"]:
        if v["style"] == "struct":
            s = c.decls[v["sid"] - 1]
            for f in s["fields"]:
                if f["default"] == "fn":
                    out.append('fn fd_%s_%s() -> %s { Marked::marked("fd", "%s") }' % (s["ident"], f["rust"], rust_ty(c, f["ty"]), f["rust"]))
    first_unit = next(v["rust"] for v in d["variants"] if v["style"] == "unit")
    out.append("impl Marked for %s { fn marked(_m: &str, _f: &str) -> Self { %s::%s } }" % (name, name, first_unit))
    out.append("impl Default for %s { fn default() -> Self { %s::%s } }" % (name, name, first_unit))
    out.append('#[allow(dead_code)] fn fw_%s() -> darling::Result<%s> { Ok(%s::%s) }' % (name, name, name, first_unit))
    out.append('#[allow(dead_code)] fn fnone_%s() -> Option<%s> { Some(%s::%s) }' % (name, name, name, first_unit))
    out.append("impl Proj for %s { fn proj(&self) -> Value { match self { %s } } }" % (name, ", ".join(proj)))
    out.append("")


def render_rust(c):
    out = ["// @generated by tools/gen_corpus.py - do not edit",
           "use std::collections::HashMap;",
           "use vh::sym::*;",
           "use vh::recv::{Elem, Magic, RawOutcome, run_meta_list, run_element};",
           ""]
    for d in c.decls:
        if d["kind"] == "struct":
            render_struct(c, d, out)
        else:
            render_enum(c, d, out)
    out.append("pub fn dispatch(did: u64, attrs_src: &str) -> RawOutcome {")
    out.append("    match did {")
    for d in c.decls:
        if not d.get("entry"):
            continue
        if d["trait"] == "FromMeta":
            out.append("        %d => run_meta_list::<%s>(attrs_src)," % (d["id"], d["ident"]))
        else:
            pat, call = {"FromDeriveInput": ("Elem::DI(x)", "from_derive_input"), "FromField": ("Elem::Field(x)", "from_field"),
                         "FromVariant": ("Elem::Variant(x)", "from_variant"), "FromTypeParam": ("Elem::TParam(x)", "from_type_param"),
                         "FromAttributes": ("Elem::Attrs(x)", "from_attributes")}[d["trait"]]
            out.append('        %d => run_element::<%s>("%s", attrs_src, |e| match e { %s => <%s as darling::%s>::%s(x), _ => unreachable!() }),' % (
                d["id"], d["ident"], d["trait"], pat, d["ident"], d["trait"], call))
    out.append('        _ => panic!("no root declaration {}", did),')
    out.append("    }")
    out.append("}")
    return "\n".join(out) + "\n"


def main():
    ap = argparse.ArgumentParser()
    ap.add_argument("--seed", type=int, default=0)
    ap.add_argument("--tier", default="quick")
    ap.add_argument("--focus", default="all")
    ap.add_argument("--ndjson", required=True)
    ap.add_argument("--rs", required=True)
    ap.add_argument("--names")
    a = ap.parse_args()
    c = build(a.seed, a.tier, a.focus)
    with open(a.ndjson, "w") as f:
        for d in c.decls:
            d = dict(d)
            d.pop("entry", None)
            d.pop("deep", None)
            f.write(json.dumps(d) + "\n")
    if a.names:
        unknown = set()

        def walk(it):
            if it["k"] == "meta":
                unknown.add(it["name"])
            for x in it["items"]:
                walk(x)
        cands = set()
        for d in c.decls:
            for it in d["alpha"]:
                walk(it)
            rule = d["rename_all"]
            rules = {rule, "snake_case"} | set(CASE_RULES)
            for f in d["fields"]:
                cands.add(f["rename"] or f["rust"])
                for r in rules:
                    cands.add(eff_field(r, f))
            for v in d["variants"]:
                for r in rules:
                    cands.add(v["rename"] or variant_case(r, v["rust"]))
        with open(a.names, "w") as f:
            json.dump({"unknown": sorted(unknown), "cands": sorted(cands)}, f)
    src = render_rust(c)
    try:
        old = open(a.rs).read()
    except OSError:
        old = None
    if old != src:
        with open(a.rs, "w") as f:
            f.write(src)
    print(json.dumps({"decls": len(c.decls), "roots": sum(1 for d in c.decls if d["root"]),
                      "alphabet_sizes": [len(d["alpha"]) for d in c.decls if d["root"]]}))


if __name__ == "__main__":
    main()
