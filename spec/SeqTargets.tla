------------------------------ MODULE SeqTargets ------------------------------
(***************************************************************************)
(* Sequence-valued conversion targets (from_meta.rs:476-573 numeric and     *)
(* literal arrays, util/path_list.rs): Vec<u8>, Vec<u64>, Vec<LitInt>,      *)
(* Vec<LitStr>, Vec<LitBool>, PathList.  An item reaches them through one   *)
(* of seven CARRIERS                                                        *)
(*     f(e, ..)      f = [e, ..]      f = "[e, ..]"      f                  *)
(*     f = 7         f = "zz"         f = true                              *)
(* and its elements are drawn one at a time from a table of element         *)
(* classes, so TLC explores the prefix tree of all element sequences.       *)
(*                                                                         *)
(* The machine is the code: the carrier selects the entry point (or the     *)
(* trait default that rejects it), every element is converted in order by   *)
(* `collect::<Result<Vec<_>>>()`, which STOPS at the first failure.  The    *)
(* declarative side says what a user may rely on: the value is the          *)
(* element-wise conversion in source order, and a rejected input reports    *)
(* exactly the first unacceptable element, at that element.                 *)
(***************************************************************************)
EXTENDS Common

CONSTANTS MaxLen, EMIT

Targets  == {"VecU8", "VecU64", "VecLitInt", "VecLitStr", "VecLitBool", "PathList"}
Carriers == {"list", "array", "qarray", "word", "lit_int", "lit_str", "lit_bool", "repeat", "repeat_huge"}    \* .. f = [7; 2]   f = [0; 18446744073709551615]
SeqCarriers == {"list", "array", "qarray"}
\* 7   300   -1   "s"   "9"   true   'c'   1.5   a::b   w   k = 1   l(x)
Classes  == {"int7", "int300", "neg", "str", "strnum", "bool", "chr", "flt", "path", "word", "nv", "sub"}
LitClasses == {"int7", "int300", "str", "strnum", "bool", "chr", "flt"}
ClassesOf(car) == IF car = "list" THEN Classes \ {"neg"} ELSE Classes      \* `-1` is not a nested meta item

IsNum(t) == t \in {"VecU8", "VecU64"}
IsLit(t) == t \in {"VecLitInt", "VecLitStr", "VecLitBool"}

\* what unexpected_lit_type calls the literal, what unexpected_expr_type calls the expression
LitName(c) == CASE c \in {"int7", "int300"} -> "int" [] c \in {"str", "strnum"} -> "string" [] c = "bool" -> "bool" [] c = "chr" -> "char" [] c = "flt" -> "float"
ExprName(c) == CASE c = "neg" -> "unary" [] c \in {"path", "word"} -> "path" [] c = "nv" -> "assign" [] c = "sub" -> "call"
\* the literal a Vec<LitX> keeps
Wanted(t) == CASE t = "VecLitInt" -> {"int7", "int300"} [] t = "VecLitStr" -> {"str", "strnum"} [] t = "VecLitBool" -> {"bool"}
TextOf(c) == CASE c = "int7" -> "7" [] c = "int300" -> "300" [] c = "str" -> "s" [] c = "strnum" -> "9" [] c = "bool" -> "true"
               [] c = "path" -> "a::b" [] c = "word" -> "w" [] c = "nv" -> "1" [] c = "neg" -> "-1" [] OTHER -> "?"

At(w, i) == [w |-> w, i |-> i]                  \* "item": the whole item, "value": the value after `=`, "elem": i-th element, "elemval": the value inside the i-th element
Good(v)       == [ok |-> TRUE, v |-> v, k |-> "", n |-> "", at |-> At("", 0)]
Bad(k, n, at) == [ok |-> FALSE, v |-> "", k |-> k, n |-> n, at |-> at]
NumMsg == "Expected array of unsigned integers"

\* ---- one element, as the code converts it ----
\* uN::from_value (from_meta_num!)
NumFromLit(t, c, at) ==
  CASE c = "int7" -> Good("7")
    [] c = "int300" -> IF t = "VecU8" THEN Bad("syn", "", at) ELSE Good("300")     \* base10_parse's own message
    [] c = "strnum" -> Good("9")
    [] c = "str" -> Bad("value", "s", at)
    [] OTHER -> Bad("type", LitName(c), at)
\* LitX::from_value (from_meta_lit!)
LitFromLit(t, c, at) == IF c \in Wanted(t) THEN Good(TextOf(c)) ELSE Bad("type", LitName(c), at)

\* element of `[..]` (an expression); every span inside a quoted array is the string literal's
ElemExpr(t, c, at) ==
  IF IsNum(t) THEN (IF c \in LitClasses THEN NumFromLit(t, c, at) ELSE Bad("custom", NumMsg, at))
  ELSE (IF c \in LitClasses THEN LitFromLit(t, c, at)
        \* a negated number is a literal to the user (the default from_expr re-reads `-(1)` as the literal `-1`)
        ELSE IF c = "neg" THEN (IF t = "VecLitInt" THEN Good("-1") ELSE Bad("type", "int", at))
        ELSE Bad("type", ExprName(c), at))
\* element of `f(..)` (a nested meta item) for Vec<LitX>: FromMeta::from_nested_meta of LitX
ElemNested(t, c, i) ==
  CASE c \in LitClasses -> LitFromLit(t, c, At("elem", i))
    [] c \in {"path", "word"} -> Bad("format", "word", At("elem", i))
    [] c = "sub" -> Bad("format", "list", At("elem", i))
    [] c = "nv" -> IF t = "VecLitInt" THEN Good("1") ELSE Bad("type", "int", At("elemval", i))     \* `k = 1`: the key is ignored, the value converted
\* element of `f(..)` for PathList
ElemPath(c, i) == IF c \in {"path", "word"} THEN Good(TextOf(c)) ELSE Bad("type", "non-word", At("elem", i))

Elem(t, car, c, i) ==
  CASE car = "array"  -> ElemExpr(t, c, At("elem", i))
    [] car = "qarray" -> ElemExpr(t, c, At("value", 0))
    [] car = "list"   -> IF t = "PathList" THEN ElemPath(c, i) ELSE ElemNested(t, c, i)

\* ---- the carrier: which entry point, or which default rejects it ----
Whole(t, car) ==
  CASE car = "word" -> Bad("format", "word", At("item", 0))
    [] car = "list" -> IF IsNum(t) THEN Bad("format", "list", At("item", 0)) ELSE Good("")
    [] car = "array" -> IF t = "PathList" THEN Bad("type", "array", At("value", 0)) ELSE Good("")
    [] car = "qarray" -> IF t = "PathList" THEN Bad("type", "string", At("value", 0)) ELSE Good("")
    [] car \in {"repeat", "repeat_huge"} -> Bad("type", "repeat", At("value", 0))       \* a repeat expression is no array: no allocation of its length either
    [] car = "lit_int" -> Bad("type", "int", At("value", 0))
    [] car = "lit_bool" -> Bad("type", "bool", At("value", 0))
    [] car = "lit_str" -> IF t = "PathList" THEN Bad("type", "string", At("value", 0)) ELSE Bad("value", "zz", At("value", 0))

VARIABLES tgt, car, elems, acc, done
vars == <<tgt, car, elems, acc, done>>

Init == /\ tgt \in Targets /\ car \in Carriers
        /\ elems = <<>> /\ done = FALSE
        /\ acc = [ok |-> Whole(tgt, car).ok, vs |-> <<>>, err |-> Whole(tgt, car)]

\* one more element is converted - unless an earlier one already failed, in which case `collect` never looks at it
Push(c) == /\ ~done /\ car \in SeqCarriers /\ Len(elems) < MaxLen
           /\ elems' = Append(elems, c)
           /\ LET r == Elem(tgt, car, c, Len(elems) + 1)
              IN acc' = IF ~acc.ok THEN acc
                        ELSE IF r.ok THEN [acc EXCEPT !.vs = Append(@, r.v)]
                        ELSE [acc EXCEPT !.ok = FALSE, !.err = r]
           /\ UNCHANGED <<tgt, car, done>>
Finish == /\ ~done /\ done' = TRUE /\ UNCHANGED <<tgt, car, elems, acc>>
Next == (\E c \in ClassesOf(car) : Push(c)) \/ Finish
Spec == Init /\ [][Next]_vars

\* ---- what a user may rely on ----
Accepts(t, ca, c) ==
  CASE t = "PathList" -> ca = "list" /\ c \in {"path", "word"}
    [] IsNum(t) -> ca \in {"array", "qarray"} /\ c \in (IF t = "VecU8" THEN {"int7", "strnum"} ELSE {"int7", "int300", "strnum"})
    [] IsLit(t) -> c \in Wanted(t) \/ (ca = "list" /\ c = "nv" /\ t = "VecLitInt") \/ (c = "neg" /\ t = "VecLitInt" /\ ca \in {"array", "qarray"})
CarrierOk(t, ca) == CASE t = "PathList" -> ca = "list" [] IsNum(t) -> ca \in {"array", "qarray"} [] IsLit(t) -> ca \in SeqCarriers
BadIdx(t, ca, es) == {i \in 1..Len(es) : ~Accepts(t, ca, es[i])}
Min(S) == CHOOSE x \in S : \A y \in S : x <= y

\* the value is the element-wise conversion in source order; a rejected input reports its first unacceptable element only
Seq_FirstError ==
  done => IF ~CarrierOk(tgt, car) THEN ~acc.ok /\ acc.vs = <<>> /\ acc.err.at.w \in {"item", "value"}
          ELSE IF BadIdx(tgt, car, elems) = {}
               THEN acc.ok /\ Len(acc.vs) = Len(elems) /\ \A i \in 1..Len(elems) : acc.vs[i] = TextOf(elems[i])
               ELSE LET i == Min(BadIdx(tgt, car, elems))
                    IN ~acc.ok /\ acc.err = Elem(tgt, car, elems[i], i)
                       /\ (car = "qarray" \/ acc.err.at.i = i)
\* the bare and the quoted array differ in nothing but where the error points
Seq_QuotedAgrees ==
  \A t \in Targets \ {"PathList"}, c \in Classes :
    LET a == Elem(t, "array", c, 1)  q == Elem(t, "qarray", c, 1)
    IN a.ok = q.ok /\ a.v = q.v /\ a.k = q.k /\ a.n = q.n
\* a literal element means the same in `f(..)` and `f = [..]`
Seq_ListAgrees ==
  \A t \in {"VecLitInt", "VecLitStr", "VecLitBool"}, c \in LitClasses :
    LET a == Elem(t, "array", c, 1)  l == Elem(t, "list", c, 1) IN a = l
ASSUME Seq_QuotedAgrees /\ Seq_ListAgrees

EmitDone == (done /\ EMIT) =>
  Emit("REPLAY", [tgt |-> tgt, car |-> car, elems |-> elems,
                  expect |-> [ok |-> BadIdx(tgt, car, elems) = {} /\ CarrierOk(tgt, car),
                              first |-> IF CarrierOk(tgt, car) /\ BadIdx(tgt, car, elems) # {} THEN Min(BadIdx(tgt, car, elems)) ELSE 0,
                              vs |-> IF BadIdx(tgt, car, elems) = {} /\ CarrierOk(tgt, car) THEN [i \in 1..Len(elems) |-> TextOf(elems[i])] ELSE <<>>],
                  model |-> acc])
=============================================================================
