-------------------------- MODULE Trace_Accumulator --------------------------
(* Trace validation: histories recorded from a real Accumulator             *)
(* (`vh record accum`) must be behaviours of Accumulator.tla; the clauses    *)
(* of the property are evaluated in every state.                             *)
EXTENDS Accumulator, IOUtils

Rec == ndJsonDeserialize(IOEnv.TRACE)

VARIABLE l
tvars == <<live, errs, hist, l>>
Ev == Rec[l]

TInit == Init /\ l = 1

TNext ==
  /\ l <= Len(Rec)
  /\ l' = l + 1
  /\ IF Ev.op.name = "reset"
     THEN live' = TRUE /\ errs' = <<>> /\ hist' = <<>>
     ELSE /\ Next
          /\ hist'[Len(hist')] = [op |-> Ev.op, res |-> Ev.res]   \* same call, same observed result

TraceSpec == TInit /\ [][TNext]_tvars

TraceAccepted ==
  LET d == TLCGet("stats").diameter IN
  IF d - 1 = Len(Rec) THEN TRUE
  ELSE Print(<<"TRACE-REJECTED at event", d, Rec[d]>>, FALSE)
=============================================================================
