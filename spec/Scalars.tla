------------------------------- MODULE Scalars -------------------------------
(***************************************************************************)
(* Scalar conversions (core/src/from_meta.rs:158-290): the 24 integer      *)
(* targets, floats, bool, char, String, PathBuf.                           *)
(*                                                                         *)
(* TLC's integers are 32-bit, so integer literals are SYMBOLIC: a value is *)
(* (a, d) = anchor number a plus a small delta d, the anchors being every  *)
(* type boundary (and 0, and 10^40) in increasing order; all anchors are   *)
(* more than 4 apart, so values are ordered lexicographically.  The        *)
(* harness materialises the digits with exact decimal arithmetic.          *)
(*                                                                         *)
(* A spelling is [quoted, radix, under, suffix, plus].                     *)
(*                                                                         *)
(* Operational: ConvInt transcribes from_meta_num! on top of the default   *)
(* dispatch (from_value: Str -> from_string -> str::parse; Int ->          *)
(* LitInt::base10_parse).  Declarative: "accepted exactly when the target  *)
(* type's standard parsing accepts it - unquoted: its sign and decimal     *)
(* value whatever radix / underscores / suffix; quoted: the string as it   *)
(* stands - and the result is exactly the denoted value".                  *)
(***************************************************************************)
EXTENDS Common

CONSTANTS EMIT

\* anchors, ascending
\*  1 -2^127   2 -2^63   3 -2^31   4 -2^15   5 -2^7   6 0   7 2^7-1   8 2^8-1   9 2^15-1   10 2^16-1
\* 11 2^31-1  12 2^32-1  13 2^63-1  14 2^64-1  15 2^127-1  16 2^128-1  17 10^40
NAnchors == 17
Zero == 6
Deltas == {0 - 2, 0 - 1, 0, 1, 2}

Le(v, w) == v[1] < w[1] \/ (v[1] = w[1] /\ v[2] <= w[2])
IsZero(v) == v = <<Zero, 0>>
Negative(v) == Le(v, <<Zero, 0 - 1>>)

\* [name, lo anchor, hi anchor, nonzero]
Prim == << [n |-> "i8", lo |-> 5, hi |-> 7], [n |-> "u8", lo |-> 6, hi |-> 8], [n |-> "i16", lo |-> 4, hi |-> 9],
           [n |-> "u16", lo |-> 6, hi |-> 10], [n |-> "i32", lo |-> 3, hi |-> 11], [n |-> "u32", lo |-> 6, hi |-> 12],
           [n |-> "i64", lo |-> 2, hi |-> 13], [n |-> "u64", lo |-> 6, hi |-> 14], [n |-> "i128", lo |-> 1, hi |-> 15],
           [n |-> "u128", lo |-> 6, hi |-> 16], [n |-> "isize", lo |-> 2, hi |-> 13], [n |-> "usize", lo |-> 6, hi |-> 14] >>
Targets == {[n |-> Prim[i].n, lo |-> Prim[i].lo, hi |-> Prim[i].hi, nz |-> z] : i \in 1..Len(Prim), z \in BOOLEAN}

Spellings ==
  {[quoted |-> TRUE, radix |-> 10, under |-> FALSE, suffix |-> "", plus |-> p] : p \in BOOLEAN}        \* "5", "+5"
  \cup {[quoted |-> TRUE, radix |-> r, under |-> u, suffix |-> s, plus |-> FALSE] :
          r \in {10, 16}, u \in BOOLEAN, s \in {"", "own"}}                                              \* "0x5", "1_0", "5u8"
  \cup {[quoted |-> FALSE, radix |-> r, under |-> u, suffix |-> s, plus |-> FALSE] :
          r \in {10, 16, 8, 2}, u \in BOOLEAN, s \in {"", "own", "other"}}
  \cup {[quoted |-> FALSE, radix |-> 10, under |-> u, suffix |-> "float", plus |-> FALSE] : u \in BOOLEAN}   \* 5f32: an integer literal all the same

VARIABLES t, v, sp, res
vars == <<t, v, sp, res>>

Pending == [ok |-> FALSE, val |-> <<0, 0>>, spanned |-> FALSE, done |-> FALSE]
Init == /\ t \in Targets /\ v \in (1..NAnchors) \X Deltas /\ sp \in Spellings /\ res = Pending
        /\ sp.plus => ~Negative(v)          \* a `+` sign is only ever written before a non-negative number

InRange(T, w) == Le(<<T.lo, 0>>, w) /\ Le(w, <<T.hi, 0>>)
Plain(s) == s.radix = 10 /\ ~s.under /\ s.suffix = ""

\* ---- operational ---------------------------------------------------------
\* str::parse::<T>() of the text as it stands: decimal digits with an optional sign, nothing else
StdParseOk(T, w, s) == Plain(s) /\ InRange(T, w) /\ (T.nz => ~IsZero(w))
\* LitInt::base10_parse::<T>(): the literal's digits in base 10 with its sign (radix, `_`, suffix dropped)
Base10ParseOk(T, w) == InRange(T, w) /\ (T.nz => ~IsZero(w))

\* from_meta (default) -> from_expr -> from_value (overridden by from_meta_num!) -> from_string | base10_parse
Convert ==
  /\ ~res.done
  /\ res' = IF sp.quoted
            THEN [ok |-> StdParseOk(t, v, sp), val |-> v, spanned |-> TRUE, done |-> TRUE]     \* Lit::Str arm; error spanned by from_value
            ELSE [ok |-> Base10ParseOk(t, v), val |-> v, spanned |-> TRUE, done |-> TRUE]       \* Lit::Int arm
  /\ UNCHANGED <<t, v, sp>>
Spec == Init /\ [][Convert]_vars

\* ---- declarative ---------------------------------------------------------
\* does the written text denote an integer the standard parser of T accepts?
ShouldAccept ==
  /\ InRange(t, v) /\ (t.nz => ~IsZero(v))
  /\ sp.quoted => Plain(sp)                                     \* quoted: the string as it stands

C11_Exact ==
  res.done =>
    /\ res.ok = ShouldAccept
    /\ res.ok => res.val = v                 \* exactly the denoted value: never wrapped, truncated or saturated
    /\ ~res.ok => res.spanned

\* plain decimal spellings mean the same quoted or unquoted
PlainQ == [quoted |-> TRUE, radix |-> 10, under |-> FALSE, suffix |-> "", plus |-> FALSE]
PlainU == [quoted |-> FALSE, radix |-> 10, under |-> FALSE, suffix |-> "", plus |-> FALSE]
ASSUME C11_QuotedAgrees == \A T \in Targets : \A w \in (1..NAnchors) \X Deltas : StdParseOk(T, w, PlainQ) = Base10ParseOk(T, w)

EmitDone == (EMIT /\ res.done) =>
  Emit("REPLAY", [t |-> t.n, nz |-> t.nz, anchor |-> v[1], delta |-> v[2], sp |-> sp, expect |-> [ok |-> ShouldAccept]])
=============================================================================
