------------------------- MODULE Trace_DeriveOptions -------------------------
(***************************************************************************)
(* Trace validation for the derive macros: declarations LONGER than the    *)
(* exhaustive bounds (up to 6 container options, 5 options per field /     *)
(* variant, drawn at random from the full alphabets incl. malformed forms, *)
(* unknown names and attribute-level syntax errors) are given to the real  *)
(* derives (`vh record deriveopts`); every recorded outcome - impl or      *)
(* diagnostics, and where each diagnostic sits - must be what C10 states   *)
(* for that declaration.  The machine's own prediction (number of          *)
(* diagnostics) is compared as well and reported as drift only.            *)
(***************************************************************************)
EXTENDS DeriveOptions, IOUtils

Rec == ndJsonDeserialize(IOEnv.TRACE)
VARIABLE l
tvars == <<vars, l>>

RECURSIVE FoldCont(_, _, _), FoldField(_, _, _), FoldVariant(_, _, _, _)
FoldCont(d, items, acc) ==
  IF Len(acc.items) = Len(items) THEN acc
  ELSE LET it == items[Len(acc.items) + 1]  r == ContainerItem(d, acc.s, it, ItemPos("c", acc.items))
       IN FoldCont(d, items, [acc EXCEPT !.items = Append(@, it), !.s = r.s, !.d = @ \o r.d])
FoldField(el, items, acc) ==
  IF Len(acc.items) = Len(items) THEN acc
  ELSE LET it == items[Len(acc.items) + 1]  r == FieldItem(acc.s, it, ItemPos(el, acc.items))
       IN FoldField(el, items, [acc EXCEPT !.items = Append(@, it), !.s = r.s, !.d = @ \o r.d, !.present = TRUE])
FoldVariant(el, items, st, acc) ==
  IF Len(acc.items) = Len(items) THEN acc
  ELSE LET it == items[Len(acc.items) + 1]  r == VariantItem(acc.s, it, ItemPos(el, acc.items), st)
       IN FoldVariant(el, items, st, [acc EXCEPT !.items = Append(@, it), !.s = r.s, !.d = @ \o r.d, !.style = st, !.present = TRUE])

ToIt(x) == [name |-> x.name, form |-> x.form]
Items(xs) == [i \in 1..Len(xs) |-> ToIt(xs[i])]
\* a recorded diagnostic sits at every position that contains it (an option item, its member, the body)
ObsAt(e, i) == {<<e.at[i][j][1], e.at[i][j][2]>> : j \in 1..Len(e.at[i])}
ObsCovered(v, e) == \E i \in 1..Len(e.at) : ObsAt(e, i) \cap v.where # {}
ObsExplained(e, i, vs) == \E v \in vs : ObsAt(e, i) \cap v.where # {}

\* load event e into the machine's variables (primed), then judge the recorded outcome in that state
Load(e) ==
  /\ derive' = e.derive /\ shape' = e.shape
  /\ cont' = FoldCont(e.derive, Items(e.cont), El(ContInit))
  /\ f1' = FoldField("f1", Items(e.f1), El(FieldInit))
  /\ f2' = [FoldField("f2", Items(e.f2), El(FieldInit)) EXCEPT !.present = e.f2present]
  /\ v1' = FoldVariant("v1", Items(e.v1), e.v1style, [El(VariantInit) EXCEPT !.style = e.v1style])
  /\ v2' = [FoldVariant("v2", Items(e.v2), IF e.shape = "enum" /\ e.v1style = "struct" /\ e.f2present THEN "struct" ELSE "unit", El(VariantInit)) EXCEPT !.present = e.v2present]
  /\ phase' = "done"

Judged(e) ==
  \/ FromIdentThenDefault'                                    \* the recorded known deviation: set aside, as in the invariants
  \/ /\ ~e.panicked
     /\ e.impl = WellFormed'                                   \* C10: accepted exactly when well-formed
     /\ ~e.impl => /\ \A v \in ReportedScope' : ObsCovered(v, e)               \* every violated rule of the reported scope
                   /\ \A i \in 1..Len(e.at) : ObsExplained(e, i, AllViolations')  \* nothing invented
Drift(e) == (e.impl = (Result' = <<>>)) /\ (~e.impl => Len(Result') = e.ndiags)

TInit == Init /\ derive = "FromMeta" /\ shape = "named" /\ l = 1
TNext == /\ l <= Len(Rec) /\ Load(Rec[l]) /\ Judged(Rec[l]) /\ l' = l + 1
         /\ (Drift(Rec[l]) \/ FromIdentThenDefault' \/ PrintT(<<"DRIFT", l>>))
TraceSpec == TInit /\ [][TNext]_tvars

TraceAccepted ==
  LET d == TLCGet("stats").diameter IN
  IF d - 1 = Len(Rec) THEN TRUE ELSE Print(<<"TRACE-REJECTED at event", d, Rec[d]>>, FALSE)
=============================================================================
