---------------------------- MODULE ReceiverProps ----------------------------
(***************************************************************************)
(* The DECLARATIVE side of C01 / C02 / C03 / C08 for derived receivers,    *)
(* written from the property statements and never looking at the step      *)
(* machine of Receiver.tla (no slots, no accumulator, no loop):            *)
(*                                                                         *)
(*   Mistakes(..)  the bag of mistakes an input contains, each with its    *)
(*                 class, offending name, outer-to-inner location path and *)
(*                 the source region its error must point into  (C02, C03) *)
(*   Expected(..)  the value every field must hold for a mistake-free      *)
(*                 input                                            (C01)  *)
(*                                                                         *)
(* TLC checks, for every declaration of the corpus and every input of the  *)
(* bounded grammar, that the operational machine agrees with them; the     *)
(* harness compares the REAL parser's result with them (property level).   *)
(*                                                                         *)
(* Only the scalar accept/reject tables (ConvVal, ConvU8, ConvBool: "does  *)
(* the target type's parsing accept this literal") are shared with the     *)
(* operational side; they are tables, not mechanisms, and are bound to the *)
(* code separately by Targets.tla (C11).                                   *)
(***************************************************************************)
EXTENDS Receiver

\* a mistake: class, name, location path, region [pos, eq]: the error's span must lie inside the
\* item at `pos` (be equal to its range if eq); pos = <<>>: no enclosing item, the error is unspanned
\* alts: for an unknown name, the suggestions C17 permits (see BestOf); <<>> for every other class
M(cls, n, loc, pos, eq) == [cls |-> cls, n |-> n, loc |-> loc, pos |-> pos, eq |-> eq, alts |-> <<>>]

\* C17: the suggestion must be a name that would have been accepted at that very position and be
\* the most similar one among all such names, provided it clears the threshold; no candidate -> none
BestOf(u, eligible) ==
  LET E == {eligible[i] : i \in 1..Len(eligible)}
      A == {c \in E : Sim(u, c).above}
      B == {c \in A : \A d \in A : Sim(u, d).rank <= Sim(u, c).rank}
  IN IF ~SUGGEST \/ A = {} THEN <<"">> ELSE SelectSeq(eligible, LAMBDA c : c \in B)
MU(n, loc, pos, eligible) == [M("unknown", n, loc, pos, FALSE) EXCEPT !.alts = BestOf(n, eligible)]

ScalarOk(f, ty, it) ==
  LET r == CASE ty.k \in {"val", "opt", "vec"} -> ConvVal(it, <<>>)
             [] ty.k = "u8" -> ConvU8(it, <<>>)
             [] ty.k = "bool" -> ConvBool(it, <<>>)
  IN r.ok /\ ~(f.transform = "and_then" /\ it.val = "s:bad")

LiveVariantNames(E) ==
  LET idx == SelectSeq([i \in 1..Len(E.variants) |-> i], LAMBDA i : ~E.variants[i].skip)
  IN [k \in 1..Len(idx) |-> VariantName(E, E.variants[idx[k]])]

RECURSIVE MistakesStruct(_, _, _, _, _, _), ConvMistakes(_, _, _, _, _), EnumMistakes(_, _, _, _), MapMistakes(_, _, _),
          MapItemMistakes(_, _, _)

\* ips: sequence of [it, p] (item with its position); P: location path; encl: position of the
\* enclosing item (<<>> at the root of an attribute set)
\* outer: names of the enclosing receivers that handed these items down through flatten members
MistakesStruct(S, rule, ips, P, encl, outer) ==
  LET n == Len(ips)
      arm(k) == IF ips[k].it.k = "lit" THEN 0 ELSE ArmOf(S, rule, ips[k].it.name)
      first(k) == \A j \in 1..(k-1) : ips[j].it.k = "lit" \/ arm(j) # arm(k)
      perItem(k) ==
        LET it == ips[k].it p == ips[k].p IN
        IF it.k = "lit" THEN <<M("other", "", P, p, FALSE)>>
        ELSE IF arm(k) # 0 THEN
          LET f == S.fields[arm(k)] nm == FieldName(rule, f) IN
          IF f.multiple THEN ConvMistakes(f, ElemTy(f), it, p, Append(P, nm \o "[]"))
          ELSE IF first(k) THEN ConvMistakes(f, f.ty, it, p, Append(P, nm))
          ELSE <<M("dup", nm, P, p, FALSE)>>            \* a repeat is one mistake whatever its value
        ELSE IF FlattenIdx(S) # 0 \/ S.allow_unknown THEN <<>>
        ELSE <<MU(it.name, P, p, AddrNames(S, rule) \o outer)>>
      unclaimed == SelectSeq(ips, LAMBDA x : x.it.k = "meta" /\ ArmOf(S, rule, x.it.name) = 0)
      flat == IF FlattenIdx(S) = 0 THEN <<>>
              ELSE IF S.fields[FlattenIdx(S)].ty.k = "map" THEN MapItemMistakes(unclaimed, P, encl)   \* a map takes every name
              ELSE LET T == D(S.fields[FlattenIdx(S)].ty.id) IN MistakesStruct(T, T.rename_all, unclaimed, P, encl, AddrNames(S, rule) \o outer)
      mentioned(i) == \E k \in 1..n : arm(k) = i
      missing(i) ==
        LET f == S.fields[i] IN
        IF Addressable(f) /\ ~f.multiple /\ DefaultKind(S, f) = "none" /\ FromNone(f.ty) = <<>> /\ ~mentioned(i)
        THEN <<M("missing", FieldName(rule, f), P, encl, TRUE)>> ELSE <<>>
  IN ConcatAll([k \in 1..n |-> perItem(k)]) \o flat \o ConcatAll([i \in 1..Len(S.fields) |-> missing(i)])

WithPos(items, pp) == [j \in 1..Len(items) |-> [it |-> items[j], p |-> Append(pp, j)]]

\* mistakes in the value given to one field (ty: its element type), located under Pf
ConvMistakes(f, ty, it, p, Pf) ==
  CASE it.form = "junk" /\ ty.k # "enum" -> <<M("other", "", Pf, p, FALSE)>>      \* a body that is not meta syntax
    [] ty.k = "flag" -> IF it.form = "word" THEN <<>> ELSE <<M("other", "", Pf, p, FALSE)>>
    [] ty.k \in {"val", "opt", "vec", "u8", "bool"} ->
         IF ScalarOk(f, ty, it) THEN <<>> ELSE <<M("other", "", Pf, p, FALSE)>>
    [] ty.k = "recv" ->
         LET T == D(ty.id) IN
         (CASE it.form = "list" -> MistakesStruct(T, T.rename_all, WithPos(it.items, p), Pf, p, <<>>)
            [] it.form = "word" -> IF T.from_word THEN <<>> ELSE <<M("other", "", Pf, p, FALSE)>>
            [] it.form = "nv"   -> <<M("other", "", Pf, p, FALSE)>>)
    [] ty.k = "enum" -> EnumMistakes(D(ty.id), it, p, Pf)
    [] ty.k = "map"  -> MapMistakes(it, p, Pf)

\* C09's reading of an enum receiver, as mistakes
EnumMistakes(E, it, p, Pf) ==
  LET live(name) == {i \in 1..Len(E.variants) : ~E.variants[i].skip /\ VariantName(E, E.variants[i]) = name}
      pick(name) == CHOOSE i \in live(name) : \A j \in live(name) : i <= j
  IN
  CASE it.form = "junk" -> <<M("other", "", Pf, p, FALSE)>>
    [] it.form = "word" ->
         \* a skipped variant can never be produced: `skip` wins over `word`
         IF (\E i \in 1..Len(E.variants) : E.variants[i].word /\ ~E.variants[i].skip) \/ E.from_word THEN <<>> ELSE <<M("other", "", Pf, p, FALSE)>>
    [] it.form = "nv" ->
         IF LitKind(it.val) # "s" \/ live(LitBody(it.val)) = {} THEN <<M("other", "", Pf, p, FALSE)>>
         ELSE LET v == E.variants[pick(LitBody(it.val))] IN
              IF v.style = "unit" \/ (v.style = "newtype" /\ FromNone(v.ty) # <<>>) THEN <<>>
              ELSE <<M("other", "", Pf, p, FALSE)>>
    [] it.form = "list" ->
         IF Len(it.items) = 0 THEN <<M("toofew", "", Pf, p, FALSE)>>
         ELSE IF Len(it.items) > 1 THEN <<M("toomany", "", Pf, p, FALSE)>>
         ELSE LET x == it.items[1] q == Append(p, 1) IN
           IF x.k = "lit" THEN <<M("other", "", Pf, q, FALSE)>>
           ELSE IF live(x.name) = {} THEN
             <<MU(x.name, Pf, q, LiveVariantNames(E))>>
           ELSE LET v == E.variants[pick(x.name)] nm == VariantName(E, v) IN
             CASE v.style = "unit" -> IF x.form = "word" THEN <<>> ELSE <<M("other", "", Pf, q, FALSE)>>
               [] v.style = "newtype" -> ConvMistakes([transform |-> "none"], v.ty, x, q, Append(Pf, nm))
               [] v.style = "struct" ->
                    IF x.form = "junk" THEN <<M("other", "", Pf, q, FALSE)>>
                    ELSE IF x.form = "list"
                    THEN MistakesStruct(D(v.sid), EnumRule(E), WithPos(x.items, q), Append(Pf, nm), q, <<>>)
                    ELSE <<M("other", "", Pf, q, FALSE)>>

\* C14's reading of a string-keyed map of Val, as mistakes.  ips: the items with their positions; p: the position
\* of the map item itself (a literal is reported about it)
MapItemMistakes(ips, Pf, p) ==
  LET n == Len(ips)
      per(j) ==
        LET x == ips[j].it q == ips[j].p IN
        IF x.k = "lit" THEN <<M("other", "", Pf, p, FALSE)>>      \* reported about the map item itself
        ELSE (IF \E i \in 1..(j-1) : ips[i].it.k = "meta" /\ ips[i].it.name = x.name
              THEN <<M("dup", x.name, Pf, q, FALSE)>> ELSE <<>>)
             \o (IF ConvVal(x, q).ok THEN <<>> ELSE <<M("other", "", Append(Pf, x.name), q, FALSE)>>)
  IN ConcatAll([j \in 1..n |-> per(j)])

MapMistakes(it, p, Pf) ==
  IF it.form # "list" THEN <<M("other", "", Pf, p, FALSE)>>
  ELSE MapItemMistakes(WithPos(it.items, p), Pf, p)

-----------------------------------------------------------------------------
(* C01: the value of a mistake-free input, field by field                  *)

RECURSIVE ExpectedStruct(_, _, _), ValueOf(_, _, _), EnumValue(_, _)

ScalarValue(f, ty, it) ==
  LET base == CASE ty.k \in {"val", "opt", "vec"} -> it.val
                [] ty.k = "u8" -> "u:" \o LitBody(it.val)
                [] ty.k = "bool" -> IF it.form = "word" THEN "b:true" ELSE "b:" \o LitBody(it.val)
      w == IF f.with # "none" THEN "w(" \o base \o ")" ELSE base      \* for Option<Val> the converter wraps the inner value
      t == CASE f.transform = "map" -> "m(" \o w \o ")" [] f.transform = "and_then" -> "t(" \o w \o ")" [] OTHER -> w
  IN IF ty.k = "opt" THEN <<t>> ELSE t

ValueOf(f, ty, it) ==
  CASE ty.k = "flag" -> "f:true"
    [] ty.k \in {"val", "opt", "vec", "u8", "bool"} -> ScalarValue(f, ty, it)
    [] ty.k = "recv" -> IF it.form = "word" THEN Marked(ty, "fw", "")
                        ELSE ExpectedStruct(D(ty.id), D(ty.id).rename_all, it.items)
    [] ty.k = "enum" -> EnumValue(D(ty.id), it)
    [] ty.k = "map"  -> <<"#map">> \o [j \in 1..Len(it.items) |-> <<it.items[j].name, it.items[j].val>>]

EnumValue(E, it) ==
  LET idx(name) == CHOOSE i \in 1..Len(E.variants) :
                     /\ ~E.variants[i].skip /\ VariantName(E, E.variants[i]) = name
                     /\ \A j \in 1..(i-1) : E.variants[j].skip \/ VariantName(E, E.variants[j]) # name
  IN
  CASE it.form = "word" ->
         IF \E i \in 1..Len(E.variants) : E.variants[i].word /\ ~E.variants[i].skip
         THEN <<E.variants[CHOOSE i \in 1..Len(E.variants) : E.variants[i].word /\ ~E.variants[i].skip
                                                                /\ \A j \in 1..(i-1) : ~(E.variants[j].word /\ ~E.variants[j].skip)].rust>>
         ELSE <<FirstUnit(E)>>
    [] it.form = "nv" ->
         LET v == E.variants[idx(LitBody(it.val))] IN
         IF v.style = "unit" THEN <<v.rust>> ELSE <<v.rust, FromNone(v.ty)[1]>>
    [] it.form = "list" ->
         LET x == it.items[1] v == E.variants[idx(x.name)] IN
         CASE v.style = "unit" -> <<v.rust>>
           [] v.style = "newtype" -> <<v.rust, ValueOf([with |-> "none", transform |-> "none"], v.ty, x)>>
           [] v.style = "struct" -> <<v.rust, ExpectedStruct(D(v.sid), EnumRule(E), x.items)>>

ExpectedStruct(S, rule, items) ==
  LET hits(i) == SelectSeq(items, LAMBDA x : x.k = "meta" /\ ArmOf(S, rule, x.name) = i)
      unclaimed == SelectSeq(items, LAMBDA x : x.k = "meta" /\ ArmOf(S, rule, x.name) = 0)
      fieldValue(i) ==
        LET f == S.fields[i] h == hits(i) IN
        IF f.flatten /\ f.ty.k = "map" THEN <<"#map">> \o [j \in 1..Len(unclaimed) |-> <<unclaimed[j].name, unclaimed[j].val>>]
        ELSE IF f.flatten THEN ExpectedStruct(D(f.ty.id), D(f.ty.id).rename_all, unclaimed)
        ELSE IF f.multiple THEN
          (IF h = <<>> /\ DefaultKind(S, f) # "none" THEN DefaultValue(S, f)
           ELSE [k \in 1..Len(h) |-> ValueOf(f, ElemTy(f), h[k])])          \* every occurrence, source order
        ELSE IF h # <<>> /\ Addressable(f) THEN ValueOf(f, f.ty, h[1])      \* supplied under its effective name
        ELSE IF DefaultKind(S, f) # "none" THEN DefaultValue(S, f)          \* own default, else container's
        ELSE FromNone(f.ty)[1]                                               \* else the type's value-for-absent
  IN CT(S, [i \in 1..Len(S.fields) |-> fieldValue(i)])

-----------------------------------------------------------------------------
(* Whole inputs (attribute lists of a root receiver)                       *)

HandledBy(S, path) == \E i \in 1..Len(S.attr_names) : S.attr_names[i] = path
IsList(S, at) == at.form = "list" /\ (S.trait = "FromMeta" \/ HandledBy(S, at.path))

\* every item of every handled list-form attribute, with its position, in source order
AllItems(S, as) == ConcatAll([a \in 1..Len(as) |-> IF IsList(S, as[a]) THEN WithPos(as[a].items, <<a>>) ELSE <<>>])

\* attribute-level syntax problems (name-value form, body that is not a meta list) - C08/C07 territory,
\* reported once per such attribute
AttrMistakes(S, as) ==
  ConcatAll([a \in 1..Len(as) |->
     IF S.trait # "FromMeta" /\ HandledBy(S, as[a].path) /\ as[a].form \in {"nv", "junk"}
     THEN <<M("other", "", <<>>, <<a>>, FALSE)>> ELSE <<>>])

MistakesOf(S, as) == AttrMistakes(S, as) \o MistakesStruct(S, S.rename_all, AllItems(S, as), <<>>, <<>>, <<>>)

ExpectedOf(S, as) ==
  ExpectedStruct(S, S.rename_all, ConcatAll([a \in 1..Len(as) |-> IF IsList(S, as[a]) THEN as[a].items ELSE <<>>]))

\* indices of the attributes the `attrs` member must receive (C08)
ForwardedOf(S, as) ==
  SelectSeq([a \in 1..Len(as) |-> a],
            LAMBDA a : /\ ~HandledBy(S, as[a].path) /\ S.attrs_field # "none"
                       /\ \/ S.forward = "all"
                          \/ S.forward = "only" /\ \E i \in 1..Len(S.forward_names) : S.forward_names[i] = as[a].path)

-----------------------------------------------------------------------------
(* Comparison of the machine's result with the declarative side            *)

\* class of an operational leaf
ClassOf(e) ==
  CASE e.k \in {"unknown", "dup", "missing"} -> <<e.k, e.n>>
    [] e.k \in {"toofew", "toomany"} -> <<e.k, "">>
    [] OTHER -> <<"other", "">>

RECURSIVE NormLoc(_)
NormSeg(s) ==   \* name[3] -> name[]
  LET n == Len(s) IN
  IF n >= 3 /\ Ch(s, n) = "]" /\ (\E i \in 1..(n-2) : Ch(s, i) = "[" /\ NatOf(SubSeq(s, i + 1, n - 1)) >= 0)
  THEN LET i == CHOOSE i \in 1..(n-2) : Ch(s, i) = "[" /\ NatOf(SubSeq(s, i + 1, n - 1)) >= 0 IN SubSeq(s, 1, i) \o "]"
  ELSE s
NormLoc(loc) == IF loc = <<>> THEN <<>> ELSE <<NormSeg(loc[1])>> \o NormLoc(Tail(loc))

LeafKey(e)   == <<ClassOf(e)[1], ClassOf(e)[2], NormLoc(e.loc)>>
MistakeKey(m) == <<m.cls, m.n, m.loc>>
CountIn(seq, key, K(_)) == Cardinality({i \in 1..Len(seq) : K(seq[i]) = key})
SameBag(leaves, ms) ==
  /\ Len(leaves) = Len(ms)
  /\ \A i \in 1..Len(ms) : CountIn(leaves, MistakeKey(ms[i]), LeafKey) = CountIn(ms, MistakeKey(ms[i]), MistakeKey)

IsPrefixOf(a, b) == Len(a) <= Len(b) /\ SubSeq(b, 1, Len(a)) = a

\* C03 at design level: a leaf's span lies in the region of SOME mistake with its key (positions
\* below the region's position are inside it), equal when the region says so; unspanned only
\* when the mistake has no enclosing item
\* C17: a suggestion only on unknown-name leaves, and then one the declarative side permits
AltFits(e, ms) ==
  IF e.k # "unknown" THEN e.alt = ""
  ELSE \E i \in 1..Len(ms) : MistakeKey(ms[i]) = LeafKey(e) /\ \E j \in 1..Len(ms[i].alts) : ms[i].alts[j] = e.alt

SpanFits(e, ms) ==
  \E i \in 1..Len(ms) :
    /\ MistakeKey(ms[i]) = LeafKey(e)
    /\ IF ms[i].pos = <<>> THEN e.sp = NoSpan
       ELSE /\ e.sp # NoSpan /\ IsPrefixOf(ms[i].pos, e.sp.pos)
            /\ ms[i].eq => (e.sp.pos = ms[i].pos /\ e.sp.part = "item")
=============================================================================
