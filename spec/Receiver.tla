------------------------------ MODULE Receiver ------------------------------
(***************************************************************************)
(* The parser a darling derive GENERATES, as a state machine.              *)
(*                                                                         *)
(* Code transcribed (one operator / action per generated critical section) *)
(*   codegen/field.rs        Declaration, MatchArm, FlattenInitializer,    *)
(*                           CheckMissing, Initializer                     *)
(*   codegen/variant_data.rs core_loop (unknown / literal items)           *)
(*   codegen/trait_impl.rs   require_fields, fallback_decl, post_transform *)
(*   codegen/error.rs        ErrorDeclaration, ErrorCheck                  *)
(*   codegen/attr_extractor.rs, attrs_field.rs  attribute walk, forwarding *)
(*   codegen/from_meta_impl.rs, variant.rs      enum receivers             *)
(*   options/input_field.rs, input_variant.rs   effective names, defaults  *)
(*   from_meta.rs            built-in conversions used as field types      *)
(*                                                                         *)
(* A receiver DECLARATION is data (one record of the corpus, shared with   *)
(* the generator that writes the real #[derive] items).  An INPUT is a     *)
(* sequence of attributes, each a list of items; every node is identified  *)
(* by its index path (its position), which the harness maps to a real      *)
(* line/column range.                                                      *)
(*                                                                         *)
(* Values are symbolic terms: strings for scalars ("s:hello", "u:5",       *)
(* "b:true", "w(..)", "m(..)", "t(..)", "cd.field", ...), sequences for    *)
(* Option (<<>> / <<v>>), Vec, structs (fields in declaration order),      *)
(* enums (<<VariantIdent, payload...>>) and maps (<<<<key, value>>, ...>>  *)
(* in insertion order).                                                    *)
(***************************************************************************)
EXTENDS ErrorOps, IOUtils

CONSTANTS
  ForeignPaths,   \* attribute names the receiver does not handle (doc, cfg, keep, ...)
  EMIT

Corpus == ndJsonDeserialize(IOEnv.CORPUS)
NDecl  == Len(Corpus)
D(id)  == Corpus[id]
Roots  == {id \in 1..NDecl : Corpus[id].root}

-----------------------------------------------------------------------------
(* Strings at character level (TLC: \o, Len, SubSeq work on strings)       *)

Lower == "abcdefghijklmnopqrstuvwxyz"
Upper == "ABCDEFGHIJKLMNOPQRSTUVWXYZ"
Ch(s, i) == SubSeq(s, i, i)
IdxIn(c, alphabet) == IF \E i \in 1..26 : Ch(alphabet, i) = c
                      THEN CHOOSE i \in 1..26 : Ch(alphabet, i) = c ELSE 0
UpC(c) == LET i == IdxIn(c, Lower) IN IF i = 0 THEN c ELSE Ch(Upper, i)
LoC(c) == LET i == IdxIn(c, Upper) IN IF i = 0 THEN c ELSE Ch(Lower, i)
IsUp(c) == IdxIn(c, Upper) # 0

RECURSIVE UpFrom(_, _), LoFrom(_, _), KebabFrom(_, _)
UpFrom(s, i) == IF i > Len(s) THEN "" ELSE UpC(Ch(s, i)) \o UpFrom(s, i + 1)
LoFrom(s, i) == IF i > Len(s) THEN "" ELSE LoC(Ch(s, i)) \o LoFrom(s, i + 1)
KebabFrom(s, i) == IF i > Len(s) THEN "" ELSE (IF Ch(s, i) = "_" THEN "-" ELSE Ch(s, i)) \o KebabFrom(s, i + 1)
UpStr(s) == UpFrom(s, 1)
LoStr(s) == LoFrom(s, 1)
Kebab(s) == KebabFrom(s, 1)

\* the six case rules applied to a snake_case field name (rule "none" = as written)
RECURSIVE Pascal(_, _, _)
Pascal(s, i, cap) ==
  IF i > Len(s) THEN ""
  ELSE IF Ch(s, i) = "_" THEN Pascal(s, i + 1, TRUE)
  ELSE (IF cap THEN UpC(Ch(s, i)) ELSE Ch(s, i)) \o Pascal(s, i + 1, FALSE)
FieldCase(rule, s) ==
  CASE rule \in {"none", "lowercase", "snake_case"} -> s
    [] rule = "PascalCase" -> Pascal(s, 1, TRUE)
    [] rule = "camelCase" -> LET p == Pascal(s, 1, TRUE) IN LoC(Ch(p, 1)) \o SubSeq(p, 2, Len(p))
    [] rule = "SCREAMING_SNAKE_CASE" -> UpStr(s)
    [] rule = "kebab-case" -> Kebab(s)

\* ... and to a PascalCase variant name
RECURSIVE Snake(_, _)
Snake(s, i) ==
  IF i > Len(s) THEN ""
  ELSE (IF i > 1 /\ IsUp(Ch(s, i)) THEN "_" ELSE "") \o LoC(Ch(s, i)) \o Snake(s, i + 1)
VariantCase(rule, s) ==
  CASE rule \in {"none", "PascalCase"} -> s
    [] rule = "lowercase" -> LoStr(s)
    [] rule = "camelCase" -> LoC(Ch(s, 1)) \o SubSeq(s, 2, Len(s))
    [] rule = "snake_case" -> Snake(s, 1)
    [] rule = "SCREAMING_SNAKE_CASE" -> UpStr(Snake(s, 1))
    [] rule = "kebab-case" -> Kebab(Snake(s, 1))

RECURSIVE DigitsVal(_, _, _)
DigitsVal(s, i, acc) ==
  IF i > Len(s) THEN acc
  ELSE LET d == IF \E k \in 1..10 : Ch("0123456789", k) = Ch(s, i)
                THEN (CHOOSE k \in 1..10 : Ch("0123456789", k) = Ch(s, i)) - 1 ELSE 99
       IN IF d = 99 \/ acc < 0 THEN 0 - 1 ELSE DigitsVal(s, i + 1, acc * 10 + d)
\* value of a short decimal string, -1 if it is not one
NatOf(s) == IF s = "" THEN 0 - 1 ELSE DigitsVal(s, 1, 0)

-----------------------------------------------------------------------------
(* Effective names (options/input_field.rs:94-100, input_variant.rs:75-80) *)

\* Enums default to snake_case (options/core.rs:57); variant fields inherit the enum's rule.
EnumRule(E) == IF E.rename_all = "none" THEN "snake_case" ELSE E.rename_all

FieldName(rule, f) == IF f.rename # "" THEN f.rename ELSE FieldCase(rule, f.rust)
VariantName(E, v)  == IF v.rename # "" THEN v.rename ELSE VariantCase(EnumRule(E), v.rust)

Addressable(f) == ~f.skip /\ ~f.flatten

\* index of the first match arm for `name` (0: none).  Rust takes the first arm.
ArmOf(S, rule, name) ==
  LET C == {i \in 1..Len(S.fields) : Addressable(S.fields[i]) /\ FieldName(rule, S.fields[i]) = name}
  IN IF C = {} THEN 0 ELSE CHOOSE i \in C : \A j \in C : i <= j

FlattenIdx(S) ==
  LET C == {i \in 1..Len(S.fields) : S.fields[i].flatten}
  IN IF C = {} THEN 0 ELSE CHOOSE i \in C : \A j \in C : i <= j

AddrNames(S, rule) ==   \* in declaration order
  LET idx == SelectSeq([i \in 1..Len(S.fields) |-> i], LAMBDA i : Addressable(S.fields[i]))
  IN [k \in 1..Len(idx) |-> FieldName(rule, S.fields[idx[k]])]

-----------------------------------------------------------------------------
(* Did-you-mean (error/kind.rs:137-161, 205-220).  Similarity is an input  *)
(* table computed by the harness with the metric the code delegates to     *)
(* (strsim::jaro_winkler): `rank` is the dense rank of the f64 similarity  *)
(* among all pairs (order-preserving, so no float arithmetic here),        *)
(* `above` says whether it exceeds the fixed threshold 0.8.                *)

SimRows == ndJsonDeserialize(IOEnv.SIMS)
\* one row per unknown name u: [u, cs: <<[c, rank, above], ...>>]
RowOf == [u \in {SimRows[i].u : i \in 1..Len(SimRows)} |-> CHOOSE i \in 1..Len(SimRows) : SimRows[i].u = u]
Sim(u, c) == LET r == SimRows[RowOf[u]].cs IN r[CHOOSE j \in 1..Len(r) : r[j].c = c]
SUGGEST == IOEnv.SUGGEST = "on"      \* the `suggestions` cargo feature

\* did_you_mean: first candidate of maximal similarity among those above the threshold
RECURSIVE DymFrom(_, _, _, _)
DymFrom(u, cands, i, best) ==
  IF i > Len(cands) THEN best
  ELSE LET c == cands[i] s == Sim(u, c) IN
       IF s.above /\ (best = "" \/ Sim(u, best).rank < s.rank)
       THEN DymFrom(u, cands, i + 1, c) ELSE DymFrom(u, cands, i + 1, best)
Dym(u, cands) == IF SUGGEST THEN DymFrom(u, cands, 1, "") ELSE ""

\* ErrorUnknownField::add_alts: a later candidate list only ever improves the suggestion
AddAltsLeaf(e, cands) ==
  LET b == Dym(e.n, cands) IN
  IF b = "" THEN e
  ELSE IF e.alt = "" \/ Sim(e.n, b).rank > Sim(e.n, e.alt).rank THEN [e EXCEPT !.alt = b] ELSE e

\* Error::add_sibling_alts_for_unknown_field (error/mod.rs:414): only at the error's origin
RECURSIVE AddSiblingAlts(_, _)
AddSiblingAlts(e, cands) ==
  IF e.loc # <<>> THEN e
  ELSE IF e.k = "unknown" THEN AddAltsLeaf(e, cands)
  ELSE IF e.k = "multi" THEN [e EXCEPT !.ch = [i \in 1..Len(e.ch) |-> AddSiblingAlts(e.ch[i], cands)]]
  ELSE e

-----------------------------------------------------------------------------
(* Results, spans                                                          *)

NoErr      == Leaf("none", "")
\* `panic`: an expect()/unreachable!() of the generated code was reached while producing this result
Ok(v)      == [ok |-> TRUE, v |-> v, e |-> NoErr, panic |-> FALSE]
Fail(e)    == [ok |-> FALSE, v |-> "", e |-> e, panic |-> FALSE]
ItemSpan(p)  == SpanAt(p, "item")
ValueSpan(p) == SpanAt(p, "value")
NameSpan(p)  == SpanAt(p, "name")
Spanned(e, sp) == WithSpan(e, sp)
MapErr(r, F(_)) == IF r.ok THEN r ELSE [r EXCEPT !.e = F(r.e)]

LitKind(code) == Ch(code, 1)           \* s i b c f p (p: a bare path expression)
LitBody(code) == SubSeq(code, 3, Len(code))
LitTypeName(code) ==
  CASE LitKind(code) = "s" -> "string" [] LitKind(code) = "i" -> "int" [] LitKind(code) = "b" -> "bool"
    [] LitKind(code) = "c" -> "char" [] LitKind(code) = "f" -> "float" [] OTHER -> "path"

-----------------------------------------------------------------------------
(* Symbolic defaults.  The generator writes, for every corpus struct R:    *)
(*   impl Default for R        -> fields marked "cd"                       *)
(*   fn cfn_R() -> R           -> fields marked "cfn"                      *)
(*   impl From<Ident> for R    -> fields marked "fi"                       *)
(*   fn fd_R_field() -> T      -> value marked "fd"                        *)
(* and the harness types have Default: Val "dflt", u8 0, bool false.       *)

FirstUnit(E) == E.variants[CHOOSE i \in 1..Len(E.variants) :
                              /\ E.variants[i].style = "unit"
                              /\ \A j \in 1..(i-1) : E.variants[j].style # "unit"].rust

RECURSIVE Marked(_, _, _)
Marked(ty, mark, fname) ==
  CASE ty.k = "val"  -> mark \o "." \o fname
    [] ty.k = "opt"  -> <<mark \o "." \o fname>>
    [] ty.k = "vec"  -> <<mark \o "." \o fname>>
    [] ty.k = "u8"   -> "u:" \o (CASE mark = "cd" -> "201" [] mark = "fd" -> "202" [] mark = "cfn" -> "203" [] OTHER -> "204")
    [] ty.k = "bool" -> "b:true"
    [] ty.k = "flag" -> "f:false"
    [] ty.k = "map"  -> <<"#map", <<mark, mark \o "." \o fname>> >>
    [] ty.k = "recv" -> [i \in 1..Len(D(ty.id).fields) |-> Marked(D(ty.id).fields[i].ty, mark, D(ty.id).fields[i].rust)]
    [] ty.k = "enum" -> <<FirstUnit(D(ty.id))>>   \* the generated enum's marker value is its first unit variant

TraitDefault(ty, fname) ==
  CASE ty.k = "val"  -> "dflt"
    [] ty.k \in {"opt", "vec"} -> <<>>
    [] ty.k = "map"  -> <<"#map">>
    [] ty.k = "u8"   -> "u:0"
    [] ty.k = "bool" -> "b:false"
    [] ty.k = "flag" -> "f:false"
    [] ty.k = "recv" -> Marked(ty, "cd", fname)
    [] ty.k = "enum" -> <<FirstUnit(D(ty.id))>>

\* options/input_field.rs:93-122 with_inherited
DefaultKind(S, f) ==
  IF f.default # "none" THEN f.default                 \* "trait" | "fn"
  ELSE IF S.cdefault # "none" THEN "inherit"
  ELSE IF f.skip THEN "trait"
  ELSE "none"

ContainerMark(S) == CASE S.cdefault = "trait" -> "cd" [] S.cdefault = "fn" -> "cfn" [] S.cdefault = "from_ident" -> "fi" [] OTHER -> ""

DefaultValue(S, f) ==
  LET k == DefaultKind(S, f) IN
  CASE k = "trait"   -> TraitDefault(f.ty, f.rust)
    [] k = "fn"      -> Marked(f.ty, "fd", f.rust)
    [] k = "inherit" -> Marked(f.ty, ContainerMark(S), f.rust)

\* FromMeta::from_none of the field's type: <<v>> if it has a value-for-absent
FromNone(ty) ==
  CASE ty.k = "opt" -> << <<>> >>
    [] ty.k = "flag" -> <<"f:false">>
    [] ty.k = "recv" -> IF D(ty.id).from_none THEN <<Marked(ty, "fn", "")>> ELSE <<>>
    [] ty.k = "enum" -> IF D(ty.id).from_none THEN << <<FirstUnit(D(ty.id))>> >> ELSE <<>>
    [] OTHER -> <<>>

-----------------------------------------------------------------------------
(* Conversions of one meta item into a field type (from_meta.rs)           *)
(* `it` is a meta item, `p` its position.  Errors carry the span the real  *)
(* conversion attaches on its way out (value, else item).                  *)

\* the default trait dispatch for a type that only implements `from_string`-like hooks
Scalar(it, p, accept(_), produce(_)) ==
  CASE it.form = "word" -> Fail(Spanned(Leaf("format", "word"), ItemSpan(p)))
    [] it.form = "list" -> Fail(Spanned(Leaf("format", "list"), ItemSpan(p)))
    [] it.form = "nv"   ->
         IF accept(it.val) THEN Ok(produce(it.val))
         ELSE Fail(Spanned(Leaf("rejected", LitTypeName(it.val)), ValueSpan(p)))

ConvVal(it, p) == Scalar(it, p, LAMBDA c : LitKind(c) = "s", LAMBDA c : c)

U8Accept(c) ==
  \/ LitKind(c) = "i" /\ NatOf(LitBody(c)) >= 0 /\ NatOf(LitBody(c)) <= 255
  \/ LitKind(c) = "s" /\ NatOf(LitBody(c)) >= 0 /\ NatOf(LitBody(c)) <= 255
ConvU8(it, p) == Scalar(it, p, U8Accept, LAMBDA c : "u:" \o LitBody(c))

ConvBool(it, p) ==
  IF it.form = "word" THEN Ok("b:true")
  ELSE Scalar(it, p, LAMBDA c : c \in {"b:true", "b:false", "s:true", "s:false"}, LAMBDA c : "b:" \o LitBody(c))

\* util::Flag (flag.rs:69-83): present as a bare word, every other form rejected as `()` rejects it
ConvFlag(it, p) ==
  IF it.form = "word" THEN Ok("f:true")
  ELSE Scalar(it, p, LAMBDA c : FALSE, LAMBDA c : c)

\* a list-form item whose tokens are not a meta list (`name(a b ; =>)`): every conversion reaches
\* NestedMeta::parse_meta_list first (from_meta.rs:75) and returns its syntax error
Junk(p) == Fail(Spanned(Leaf("custom", "syntax"), SpanAt(p, "inside")))

RECURSIVE ConvTy(_, _, _), ParseStruct(_, _, _, _, _, _), FoldItems(_, _, _, _, _, _), ConvEnum(_, _, _),
          ConvMap(_, _, _), FoldMap(_, _, _, _, _), MapFromList(_)

-----------------------------------------------------------------------------
(* The struct machine (codegen/field.rs, variant_data.rs, trait_impl.rs)   *)

\* local declarations (field.rs:90): one slot per field, the accumulator, the flatten buffer
InitSt(S) == [slots |-> [i \in 1..Len(S.fields) |->
                           IF S.fields[i].multiple THEN [seen |-> FALSE, has |-> TRUE, v |-> <<>>]
                           ELSE [seen |-> FALSE, has |-> FALSE, v |-> ""]],
              errs |-> <<>>, flat |-> <<>>, panic |-> FALSE]

ElemTy(f) == IF f.multiple THEN [k |-> "val", id |-> 0] ELSE f.ty

\* user-supplied converters are symbolic wrappers: with -> w(..), map -> m(..), and_then -> t(..)
\* and_then rejects the value "s:bad" (so that a post-transform can itself be a mistake)
ApplyWith(f, r) ==
  IF f.with = "none" \/ ~r.ok THEN r
  ELSE IF ElemTy(f).k = "opt" THEN [r EXCEPT !.v = <<"w(" \o r.v[1] \o ")">>]     \* w_opt: Option<Val> -> Some(w(..))
  ELSE [r EXCEPT !.v = "w(" \o r.v \o ")"]
ApplyTransform(f, r) ==
  IF ~r.ok \/ f.transform = "none" THEN r
  ELSE IF f.transform = "map" THEN [r EXCEPT !.v = "m(" \o r.v \o ")"]
  ELSE IF r.v \in {"s:bad", "w(s:bad)"} THEN Fail(Leaf("custom", "t-rejects"))
  ELSE [r EXCEPT !.v = "t(" \o r.v \o ")"]

\* MatchArm's extractor (field.rs:181-185)
Extract(f, it, p, loc) ==
  MapErr(ApplyTransform(f, ApplyWith(f, ConvTy(ElemTy(f), it, p))),
         LAMBDA e : At(Spanned(e, ItemSpan(p)), loc))

Push(st, e) == [st EXCEPT !.errs = Append(@, e)]
Noting(st, r) == IF r.panic THEN [st EXCEPT !.panic = TRUE] ELSE st

\* one iteration of core_loop (variant_data.rs:64-80, field.rs:150-214)
StepItem(S, rule, st, it, p) ==
  IF it.k = "lit" THEN Push(st, Spanned(Leaf("format", "literal"), ItemSpan(p)))
  ELSE
    LET i == ArmOf(S, rule, it.name) IN
    IF i # 0 THEN
      LET f == S.fields[i] nm == FieldName(rule, f) sl == st.slots[i] IN
      IF f.multiple THEN
        LET r == Extract(f, it, p, nm \o "[" \o ToString(Len(sl.v)) \o "]") IN
        Noting(IF r.ok THEN [st EXCEPT !.slots[i].v = Append(@, r.v)] ELSE Push(st, r.e), r)
      ELSE IF ~sl.seen THEN
        LET r == Extract(f, it, p, nm) IN
        Noting(IF r.ok THEN [st EXCEPT !.slots[i] = [seen |-> TRUE, has |-> TRUE, v |-> r.v]]
               ELSE Push([st EXCEPT !.slots[i].seen = TRUE], r.e), r)
      ELSE Push(st, Spanned(Leaf("dup", nm), ItemSpan(p)))
    ELSE IF FlattenIdx(S) # 0 THEN [st EXCEPT !.flat = Append(@, [it |-> it, p |-> p])]
    ELSE IF S.allow_unknown THEN st
    ELSE Push(st, Spanned([Leaf("unknown", it.name) EXCEPT !.alt = Dym(it.name, AddrNames(S, rule))], ItemSpan(p)))

FoldItems(S, rule, st, items, pp, j) ==
  IF j > Len(items) THEN st
  ELSE FoldItems(S, rule, StepItem(S, rule, st, items[j], Append(pp, j)), items, pp, j + 1)

\* FlattenInitializer (field.rs:116-146): the buffered items, each still at its own position,
\* go to the flatten member's from_list; parent names are offered to unknown-field errors at
\* the origin only (error/mod.rs:414)
RECURSIVE FoldFlat(_, _, _, _, _)
FoldFlat(S, rule, st, buf, j) ==
  IF j > Len(buf) THEN st ELSE FoldFlat(S, rule, StepItem(S, rule, st, buf[j].it, buf[j].p), buf, j + 1)

\* require_fields + ErrorCheck + initializers for a struct body whose items are already folded
RECURSIVE FinishStruct(_, _, _, _, _)
FlattenInit(S, rule, st) ==
  LET fi == FlattenIdx(S) IN
  IF fi = 0 THEN st
  ELSE LET f == S.fields[fi]
           T == D(f.ty.id)
           \* the member's own from_list: a derived struct's, or a map's (which keeps every name it is handed)
           inner == IF f.ty.k = "map" THEN MapFromList(st.flat)
                    ELSE FinishStruct(T, T.rename_all, FoldFlat(T, T.rename_all, InitSt(T), st.flat, 1), <<>>, NoSpan)
           names == AddrNames(S, rule)
       IN Noting(IF inner.ok
                 THEN [st EXCEPT !.slots[fi] = [seen |-> TRUE, has |-> TRUE, v |-> inner.v]]
                 ELSE Push([st EXCEPT !.slots[fi].seen = TRUE],
                           IF names = <<>> THEN inner.e ELSE AddSiblingAlts(inner.e, names)), inner)

\* CheckMissing (field.rs:248-277), in field order
RECURSIVE Missing(_, _, _, _)
Missing(S, rule, st, i) ==
  IF i > Len(S.fields) THEN st
  ELSE LET f == S.fields[i] sl == st.slots[i] IN
       IF f.multiple \/ DefaultKind(S, f) # "none" \/ sl.seen THEN Missing(S, rule, st, i + 1)
       ELSE LET fn == FromNone(f.ty) IN
            IF fn # <<>> THEN Missing(S, rule, [st EXCEPT !.slots[i].has = TRUE, !.slots[i].v = fn[1]], i + 1)
            ELSE Missing(S, rule, Push(st, Leaf("missing", FieldName(rule, f))), i + 1)

\* Initializer (field.rs:219-245).  "PANIC" marks the expect() that must be unreachable.
InitField(S, f, sl) ==
  IF f.multiple THEN (IF DefaultKind(S, f) # "none" /\ sl.v = <<>> THEN DefaultValue(S, f) ELSE sl.v)
  ELSE IF sl.has THEN sl.v
  ELSE IF DefaultKind(S, f) # "none" THEN DefaultValue(S, f)
  ELSE "?"    \* the expect(): see InitPanics

\* container post-transform: the generated cm_R / ct_R wrap every direct Val field
CT(S, v) ==
  IF S.ctransform = "none" THEN v
  ELSE [i \in 1..Len(v) |-> IF S.fields[i].ty.k = "val" /\ ~S.fields[i].multiple
                            THEN (IF S.ctransform = "map" THEN "cm(" ELSE "ct(") \o v[i] \o ")" ELSE v[i]]

\* "Uninitialized fields without defaults were already checked" (field.rs:241) must be unreachable
InitPanics(S, st) == \E i \in 1..Len(S.fields) :
  ~S.fields[i].multiple /\ ~st.slots[i].has /\ DefaultKind(S, S.fields[i]) = "none"

\* ErrorCheck (error.rs:38): finish(), then - for a struct variant - the nested item's span and the
\* variant's name as location
FinishStruct(S, rule, st0, atloc, spn) ==
  LET st1 == FlattenInit(S, rule, st0)
      st2 == Missing(S, rule, st1, 1)
  IN IF st2.errs # <<>>
     THEN [Fail(IF atloc = <<>> THEN Multiple(st2.errs) ELSE At(Spanned(Multiple(st2.errs), spn), atloc[1])) EXCEPT !.panic = st2.panic]
     ELSE [Ok(CT(S, [i \in 1..Len(S.fields) |-> InitField(S, S.fields[i], st2.slots[i])]))
             EXCEPT !.panic = st2.panic \/ InitPanics(S, st2)]

\* from_list of a derived struct (from_meta_impl.rs:62-99)
ParseStruct(S, rule, items, pp, atloc, spn) ==
  FinishStruct(S, rule, FoldItems(S, rule, InitSt(S), items, pp, 1), atloc, spn)

\* from_meta of a derived struct used as a field type (default trait dispatch, from_meta.rs:54-86)
ConvRecv(S, it, p) ==
  CASE it.form = "list" -> MapErr(ParseStruct(S, S.rename_all, it.items, p, <<>>, NoSpan), LAMBDA e : Spanned(e, ItemSpan(p)))
    [] it.form = "word" -> IF S.from_word THEN Ok(Marked([k |-> "recv", id |-> S.id], "fw", ""))
                           ELSE Fail(Spanned(Leaf("format", "word"), ItemSpan(p)))
    [] it.form = "nv"   -> Fail(Spanned(Leaf("rejected", LitTypeName(it.val)), ValueSpan(p)))

-----------------------------------------------------------------------------
(* Enum receivers (codegen/from_meta_impl.rs:101-150, variant.rs)          *)

LiveVariants(E) == SelectSeq(E.variants, LAMBDA v : ~v.skip)
VariantIdx(E, name) ==
  LET C == {i \in 1..Len(E.variants) : ~E.variants[i].skip /\ VariantName(E, E.variants[i]) = name}
  IN IF C = {} THEN 0 ELSE CHOOSE i \in C : \A j \in C : i <= j

\* candidate list of the unknown-variant error (from_meta_impl.rs:104-118): the non-skipped variants, in order
VariantNames(E) ==
  LET idx == SelectSeq([i \in 1..Len(E.variants) |-> i], LAMBDA i : ~E.variants[i].skip)
  IN [k \in 1..Len(idx) |-> VariantName(E, E.variants[idx[k]])]

\* from_string (variant.rs:61-112)
EnumFromString(E, s) ==
  LET i == VariantIdx(E, s) IN
  IF i = 0 THEN Fail(Leaf("value", s))
  ELSE LET v == E.variants[i] IN
       CASE v.style = "unit" -> Ok(<<v.rust>>)
         [] v.style = "newtype" -> IF FromNone(v.ty) # <<>> THEN Ok(<<v.rust, FromNone(v.ty)[1]>>)
                                   ELSE Fail(Leaf("format", "literal"))
         [] v.style = "struct" -> Fail(Leaf("format", "literal"))

WordVariant(E) ==
  LET C == {i \in 1..Len(E.variants) : E.variants[i].word /\ ~E.variants[i].skip}       \* from_meta.rs:47-49 (skipped variants are not candidates)
  IN IF C = {} THEN 0 ELSE CHOOSE i \in C : \A j \in C : i <= j

\* from_list (from_meta_impl.rs:117-138): exactly one nested item
EnumFromList(E, items, pp) ==
  IF Len(items) = 0 THEN Fail(Leaf("toofew", "1"))
  ELSE IF Len(items) > 1 THEN Fail(Leaf("toomany", "1"))
  ELSE LET it == items[1] p == Append(pp, 1) IN
    IF it.k = "lit" THEN Fail(Spanned(Leaf("format", "literal"), ItemSpan(p)))
    ELSE LET i == VariantIdx(E, it.name) IN
      IF i = 0 THEN Fail(Spanned([Leaf("unknown", it.name) EXCEPT !.alt = Dym(it.name, VariantNames(E))], ItemSpan(p)))
      ELSE LET v == E.variants[i] nm == VariantName(E, v) IN
        CASE v.style = "unit" ->
               IF it.form = "word" THEN Ok(<<v.rust>>) ELSE Fail(Spanned(Leaf("format", "non-path"), ItemSpan(p)))
          [] v.style = "struct" ->
               IF it.form = "junk" THEN Junk(p)        \* `parse_meta_list(..)?` (variant.rs:156)
               ELSE IF it.form = "list"
               THEN LET S == D(v.sid) r == ParseStruct(S, EnumRule(E), it.items, p, <<nm>>, ItemSpan(p))
                    IN IF r.ok THEN [r EXCEPT !.v = <<v.rust, r.v>>] ELSE r
               ELSE Fail(Spanned(Leaf("format", "non-list"), ItemSpan(p)))
          [] v.style = "newtype" ->
               LET r == ConvTy(v.ty, it, p) IN
               IF r.ok THEN [r EXCEPT !.v = <<v.rust, r.v>>] ELSE [r EXCEPT !.e = At(r.e, nm)]

ConvEnum(E, it, p) ==
  MapErr(
    CASE it.form = "junk" -> Junk(p)
      [] it.form = "list" -> EnumFromList(E, it.items, p)
      [] it.form = "word" ->
           IF WordVariant(E) # 0 THEN Ok(<<E.variants[WordVariant(E)].rust>>)
           ELSE IF E.from_word THEN Ok(<<FirstUnit(E)>>)
           ELSE Fail(Leaf("format", "word"))
      [] it.form = "nv" ->
           IF LitKind(it.val) = "s" THEN MapErr(EnumFromString(E, LitBody(it.val)), LAMBDA e : Spanned(e, ValueSpan(p)))
           ELSE Fail(Spanned(Leaf("rejected", LitTypeName(it.val)), ValueSpan(p))),
    LAMBDA e : Spanned(e, ItemSpan(p)))

-----------------------------------------------------------------------------
(* Maps with String keys and Val values (from_meta.rs:711-801); the full   *)
(* key/value matrix is Maps.tla - here the map is a field type.            *)

FoldMap(ips, j, acc, seen, dummy) ==
  IF j > Len(ips) THEN acc
  ELSE LET it == ips[j].it p == ips[j].p IN
    IF it.k = "lit" THEN FoldMap(ips, j + 1, [acc EXCEPT !.errs = Append(@, Leaf("format", "expression"))], seen, 0)
    ELSE LET r == MapErr(ConvVal(it, p), LAMBDA e : At(e, it.name))
             dup == it.name \in seen
             a1 == IF dup THEN [acc EXCEPT !.errs = Append(@, Spanned(Leaf("dup", it.name), NameSpan(p)))] ELSE acc
             a2 == IF r.ok THEN (IF dup THEN a1 ELSE [a1 EXCEPT !.m = Append(@, <<it.name, r.v>>)])
                   ELSE [a1 EXCEPT !.errs = Append(@, r.e)]
         IN FoldMap(ips, j + 1, a2, seen \cup {it.name}, 0)

\* from_list of a string-keyed map (from_meta.rs, `map!`): the items each at their own position (a flatten member's
\* buffer keeps the positions the items had in the receiver's list)
MapFromList(ips) ==
  LET acc == FoldMap(ips, 1, [m |-> <<>>, errs |-> <<>>], {}, 0) IN
  IF acc.errs = <<>> THEN Ok(<<"#map">> \o acc.m) ELSE Fail(Multiple(acc.errs))

ConvMap(it, p, dummy) ==
  MapErr(
    CASE it.form = "list" ->
           MapFromList([j \in 1..Len(it.items) |-> [it |-> it.items[j], p |-> Append(p, j)]])
      [] it.form = "word" -> Fail(Leaf("format", "word"))
      [] it.form = "nv"   -> Fail(Spanned(Leaf("rejected", LitTypeName(it.val)), ValueSpan(p))),
    LAMBDA e : Spanned(e, ItemSpan(p)))

ConvTy(ty, it, p) ==
  CASE it.form = "junk" /\ ty.k # "enum" -> Junk(p)
    [] ty.k = "flag" -> ConvFlag(it, p)
    [] ty.k = "val"  -> ConvVal(it, p)
    [] ty.k = "opt"  -> LET r == ConvVal(it, p) IN IF r.ok THEN [r EXCEPT !.v = <<r.v>>] ELSE r
    [] ty.k = "u8"   -> ConvU8(it, p)
    [] ty.k = "bool" -> ConvBool(it, p)
    [] ty.k = "recv" -> ConvRecv(D(ty.id), it, p)
    [] ty.k = "enum" -> ConvEnum(D(ty.id), it, p)
    [] ty.k = "map"  -> ConvMap(it, p, 0)

-----------------------------------------------------------------------------
(* The element-level machine: attribute walk (attr_extractor.rs:96-110),   *)
(* forwarding (attrs_field.rs:81-109), then the struct tail.               *)
(*                                                                         *)
(* An attribute is [path, form, items]: form "list" (#[p(items)]), "word"  *)
(* (#[p]), "nv" (#[p = "v"]) or "junk" (#[p(a b)]: not a meta list).       *)

VARIABLES did, attrs, st, fwd, open, done, result
vars == <<did, attrs, st, fwd, open, done, result>>

R == D(did)
IsElement == R.trait # "FromMeta"
Handled(path) == \E i \in 1..Len(R.attr_names) : R.attr_names[i] = path
Forwarded(path) ==
  /\ R.attrs_field # "none"
  /\ \/ R.forward = "all"
     \/ R.forward = "only" /\ \E i \in 1..Len(R.forward_names) : R.forward_names[i] = path

NItems == SumSeq([a \in 1..Len(attrs) |-> Len(attrs[a].items)])

RootAttr == [path |-> "root", form |-> "list", items |-> <<>>]

Init ==
  /\ did \in Roots
  /\ attrs = (IF D(did).trait = "FromMeta" THEN <<RootAttr>> ELSE <<>>)
  /\ open = (D(did).trait = "FromMeta")
  /\ st = InitSt(D(did)) /\ fwd = <<>> /\ done = FALSE /\ result = Ok("")

\* ---- input grammar: the bounded alphabet of each root is data of the corpus ----
ItemAlphabet == Range(R.alpha)
InputPaths == {R.attr_names[i] : i \in 1..Len(R.attr_names)}

\* attribute with a handled name, list form: opened, items follow one by one
OpenAttr ==
  /\ ~done /\ ~open /\ IsElement /\ Len(attrs) < R.max_attrs
  /\ \E path \in InputPaths :
       attrs' = Append(attrs, [path |-> path, form |-> "list", items |-> <<>>])
  /\ open' = TRUE
  /\ UNCHANGED <<did, st, fwd, done, result>>

\* one more item of the open attribute: one iteration of the core loop
Item ==
  /\ ~done /\ open /\ NItems < R.max_items
  /\ \E it \in ItemAlphabet :
       LET a == Len(attrs) j == Len(attrs[a].items) + 1 IN
       /\ attrs' = [attrs EXCEPT ![a].items = Append(@, it)]
       /\ st' = StepItem(R, R.rename_all, st, it, <<a, j>>)
  /\ UNCHANGED <<did, fwd, open, done, result>>

CloseAttr ==
  /\ ~done /\ open /\ IsElement
  /\ open' = FALSE
  /\ UNCHANGED <<did, attrs, st, fwd, done, result>>

AttrSyntaxErr(a, what) == Spanned(Leaf("custom", what), SpanAt(<<a>>, "attr"))

\* a handled name in bare / name-value / junk form, or an unrelated attribute in any form
OtherAttr ==
  /\ ~done /\ ~open /\ IsElement /\ Len(attrs) < R.max_attrs
  /\ \E path \in InputPaths \cup ForeignPaths, form \in {"word", "nv", "junk"} :
       /\ (path \in InputPaths /\ path # R.attr_names[1]) => form = "word"
       /\ (R.attr_names = <<>>) => form \in {"word", "nv"}   \* bound: one handled name takes every form
       /\ LET a == Len(attrs) + 1 IN
          /\ attrs' = Append(attrs, [path |-> path, form |-> form, items |-> <<>>])
          /\ IF Handled(path)
             THEN /\ fwd' = fwd
                  /\ st' = CASE form = "word" -> st                       \* empty list: `continue`
                             [] form = "nv"   -> Push(st, AttrSyntaxErr(a, "attr-name-value"))
                             [] form = "junk" -> Push(st, AttrSyntaxErr(a, "attr-syntax"))
             ELSE /\ st' = st
                  /\ fwd' = IF Forwarded(path) THEN Append(fwd, a) ELSE fwd
  /\ UNCHANGED <<did, open, done, result>>

LeafRec(e) == [k |-> e.k, n |-> e.n, loc |-> e.loc, sp |-> e.sp, alt |-> e.alt]
Expectation(r, f) ==
  [ok |-> r.ok, v |-> r.v,
   leaves |-> IF r.ok THEN <<>> ELSE LET lv == IntoVec(r.e) IN [i \in 1..Len(lv) |-> LeafRec(lv[i])],
   fwd |-> f]

Finish ==
  /\ ~done /\ (IsElement => ~open)
  /\ done' = TRUE
  /\ result' = FinishStruct(R, R.rename_all, st, <<>>, NoSpan)
  /\ UNCHANGED <<did, attrs, st, fwd, open>>

Next == OpenAttr \/ Item \/ CloseAttr \/ OtherAttr \/ Finish
Spec == Init /\ [][Next]_vars

-----------------------------------------------------------------------------
(* Big-step semantics of a whole input: the left fold of the same steps.   *)
(* Used for the merge law (C08) and by nested conversions above.           *)

RECURSIVE RunAttrs(_, _, _, _)
RunAttrs(S, as, a, s) ==
  IF a > Len(as) THEN s
  ELSE LET at == as[a] IN
       IF ~(\E i \in 1..Len(S.attr_names) : S.attr_names[i] = at.path) THEN RunAttrs(S, as, a + 1, s)
       ELSE CASE at.form = "list" -> RunAttrs(S, as, a + 1, FoldItems(S, S.rename_all, s, at.items, <<a>>, 1))
              [] at.form = "word" -> RunAttrs(S, as, a + 1, s)
              [] at.form = "nv"   -> RunAttrs(S, as, a + 1, Push(s, Spanned(Leaf("custom", "attr-name-value"), SpanAt(<<a>>, "attr"))))
              [] at.form = "junk" -> RunAttrs(S, as, a + 1, Push(s, Spanned(Leaf("custom", "attr-syntax"), SpanAt(<<a>>, "attr"))))

RunAll(S, as) == FinishStruct(S, S.rename_all, RunAttrs(S, as, 1, InitSt(S)), <<>>, NoSpan)

\* all items of the handled list-form attributes, in order, as one attribute
MergedItems(S, as) ==
  ConcatAll([a \in 1..Len(as) |->
     IF as[a].form = "list" /\ (\E i \in 1..Len(S.attr_names) : S.attr_names[i] = as[a].path) THEN as[a].items ELSE <<>>])

=============================================================================
