--------------------------- MODULE ScalarsConcrete ---------------------------
(* The 8- and 16-bit integer targets over a concrete range of literal values (C11's exhaustive  *)
(* clause): same rules as Scalars.tla with real integers instead of symbolic ones.               *)
EXTENDS Common
CONSTANTS LoAbs, LoNeg, HiAbs, HiNeg, EMIT     \* (TLC configuration files have no negative numerals)
Lo == IF LoNeg THEN 0 - LoAbs ELSE LoAbs
Hi == IF HiNeg THEN 0 - HiAbs ELSE HiAbs
Small == << [n |-> "i8", lo |-> 0 - 128, hi |-> 127], [n |-> "u8", lo |-> 0, hi |-> 255],
            [n |-> "i16", lo |-> 0 - 32768, hi |-> 32767], [n |-> "u16", lo |-> 0, hi |-> 65535] >>
Targets == {[n |-> Small[i].n, lo |-> Small[i].lo, hi |-> Small[i].hi, nz |-> z] : i \in 1..4, z \in BOOLEAN}
VARIABLES t, v, quoted, res
vars == <<t, v, quoted, res>>
Init == t \in Targets /\ v \in Lo..Hi /\ quoted \in BOOLEAN /\ res = "?"
\* str::parse / LitInt::base10_parse on a plain decimal spelling
Convert == res = "?" /\ res' = (IF v >= t.lo /\ v <= t.hi /\ (t.nz => v # 0) THEN "ok" ELSE "err") /\ UNCHANGED <<t, v, quoted>>
Spec == Init /\ [][Convert]_vars
ShouldAccept == t.lo <= v /\ v <= t.hi /\ ~(t.nz /\ v = 0)
C11_Exact == res # "?" => (res = "ok") = ShouldAccept
EmitDone == (EMIT /\ res # "?") => Emit("REPLAY", [t |-> t.n, nz |-> t.nz, v |-> v, quoted |-> quoted, expect |-> [ok |-> ShouldAccept]])
=============================================================================
