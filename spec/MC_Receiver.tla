----------------------------- MODULE MC_Receiver -----------------------------
(* Model-checking instance of the receiver machine: the corpus is the constant, Init draws the   *)
(* declaration, the actions draw the input item by item; every completed behaviour is checked   *)
(* against the declarative side (ReceiverProps) and printed as one REPLAY line.                  *)
EXTENDS ReceiverProps

Ms == MistakesOf(R, attrs)
Leaves == IF result.ok THEN <<>> ELSE IntoVec(result.e)

\* C07 (design level): the expect() of the field initializer is unreachable
NoPanic == done => ~result.panic

\* C02: fails iff there is a mistake; leaves correspond one-to-one with the mistakes
C02_OneToOne == done => /\ result.ok <=> (Ms = <<>>)
                        /\ ~result.ok => SameBag(Leaves, Ms)

\* C01: a mistake-free input yields exactly the declared field mapping
C01_Mapping == (done /\ Ms = <<>>) => result.ok /\ result.v = ExpectedOf(R, attrs)

\* C03: every leaf's span lies in the region of its mistake
C03_Spans == (done /\ ~result.ok) => \A i \in 1..Len(Leaves) : SpanFits(Leaves[i], Ms)

\* C17: suggestions are sound (eligible at that position), best-match, scoped to the level
C17_Suggest == (done /\ ~result.ok) => \A i \in 1..Len(Leaves) : AltFits(Leaves[i], Ms)

\* C08: forwarding, and several attributes behave as the single merged list
C08_Forward == done => fwd = ForwardedOf(R, attrs)
StripSpans(r) ==
  IF r.ok THEN [ok |-> TRUE, v |-> r.v]
  ELSE LET lv == IntoVec(r.e) IN [ok |-> FALSE, v |-> [i \in 1..Len(lv) |-> [k |-> lv[i].k, n |-> lv[i].n, loc |-> lv[i].loc]]]
NoSyntaxErr == \A a \in 1..Len(attrs) : Handled(attrs[a].path) => attrs[a].form \in {"list", "word"}
C08_Merge ==
  (done /\ IsElement /\ NoSyntaxErr /\ R.attr_names # <<>>) =>
     StripSpans(result) =
       StripSpans(RunAll(R, <<[path |-> R.attr_names[1], form |-> "list", items |-> MergedItems(R, attrs)]>>))

\* the stepwise machine and the big-step fold are the same function
BigStepAgrees == (done /\ IsElement) => result = RunAll(R, attrs)

EmitDone ==
  (EMIT /\ done) =>
    Emit("REPLAY", [did |-> did, attrs |-> attrs,
                    \* C08: the same items written as one attribute (where the merge law applies) - the real receiver is run on
                    \* both spellings and has to answer alike
                    merged |-> IF IsElement /\ NoSyntaxErr /\ R.attr_names # <<>> /\ Len(attrs) > 1
                               THEN <<[path |-> R.attr_names[1], form |-> "list", items |-> MergedItems(R, attrs)]>> ELSE <<>>,
                    expect |-> [ok |-> result.ok, v |-> result.v,
                                leaves |-> [i \in 1..Len(Leaves) |-> LeafRec(Leaves[i])],
                                fwd |-> fwd,
                                mistakes |-> Ms,
                                clean |-> (Ms = <<>>),
                                v_decl |-> IF Ms = <<>> THEN ExpectedOf(R, attrs) ELSE <<>>,
                                fwd_decl |-> ForwardedOf(R, attrs)]])
=============================================================================
