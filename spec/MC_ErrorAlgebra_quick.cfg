SPECIFICATION Spec
CONSTANTS
  Kinds = {"dup", "unknown"}
  Names = {"x"}
  Locs = {"a", "b"}
  SpanIds = {1, 2}
  MaxPool = 3
  MaxLeaves = 3
  MaxLoc = 1
  MaxArity = 3
  MaxOps = 7
  EMIT = TRUE
CONSTRAINT DepthBound
INVARIANTS AllLaws Bounded
CHECK_DEADLOCK FALSE
