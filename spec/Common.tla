------------------------------- MODULE Common -------------------------------
(* Helpers shared by every darling specification module.                    *)
EXTENDS Naturals, Sequences, FiniteSets, TLC, Json

RECURSIVE SumSeq(_)
SumSeq(s) == IF s = <<>> THEN 0 ELSE Head(s) + SumSeq(Tail(s))

RECURSIVE ConcatAll(_)
ConcatAll(ss) == IF ss = <<>> THEN <<>> ELSE Head(ss) \o ConcatAll(Tail(ss))

RECURSIVE JoinStr(_, _)
JoinStr(ss, sep) ==
  IF ss = <<>> THEN ""
  ELSE IF Len(ss) = 1 THEN ss[1]
  ELSE ss[1] \o sep \o JoinStr(Tail(ss), sep)

MapSeq(s, Op(_)) == [i \in 1..Len(s) |-> Op(s[i])]

SelectIdx(s, Test(_)) == {i \in 1..Len(s) : Test(s[i])}

RemoveAt(s, i) == SubSeq(s, 1, i-1) \o SubSeq(s, i+1, Len(s))

RECURSIVE RemoveAll(_, _)
\* remove the indices in set I from s (keeping order)
RemoveAll(s, I) ==
  IF s = <<>> THEN <<>>
  ELSE LET n == Len(s)
           rest == RemoveAll(SubSeq(s, 1, n-1), I)
       IN IF n \in I THEN rest ELSE Append(rest, s[n])

Range(s) == {s[i] : i \in 1..Len(s)}

\* all injective sequences of length lo..hi over the finite set S
InjSeqs(S, n) == {q \in [1..n -> S] : \A i, j \in 1..n : i # j => q[i] # q[j]}

\* One REPLAY line per call; the driver greps for the tag.
Emit(tag, rec) == PrintT(<<tag, ToJson(rec)>>)
=============================================================================
