----------------------------- MODULE ScalarForms -----------------------------
(***************************************************************************)
(* Which meta forms and literal kinds each scalar target accepts           *)
(* (core/src/from_meta.rs:158-290), as the default dispatch of the trait   *)
(* (see MetaRouting.tla) restricted to the hooks each target overrides.    *)
(*                                                                         *)
(* Item: [form, kind, cls]: form "word" | "list" | "nv"; for nv the        *)
(* literal kind ("bool" "str" "char" "int" "float" "bytestr") and, for     *)
(* strings, the class of its contents: "true" "false" "digits" "float"     *)
(* "one_char" "multi" "empty" "padded" (" true", "17 ", "/**/1.5").         *)
(***************************************************************************)
EXTENDS Common

CONSTANTS EMIT

Targets == {"int", "float", "bool", "char", "String", "PathBuf"}
StrClasses == {"true", "false", "digits", "float", "one_char", "multi", "empty", "padded"}    \* padded: an acceptable text with blanks / a comment around it
Items ==
  {[form |-> f, kind |-> "", cls |-> ""] : f \in {"word", "list"}}
  \cup {[form |-> "nv", kind |-> k, cls |-> ""] : k \in {"bool", "char", "int", "float", "bytestr"}}
  \cup {[form |-> "nv", kind |-> "str", cls |-> c] : c \in StrClasses}

\* the hooks each target overrides
Overrides(t) ==
  CASE t = "bool" -> {"word", "bool", "string"}
    [] t = "char" -> {"char", "string"}
    [] t \in {"String", "PathBuf"} -> {"string"}
    [] t \in {"int", "float"} -> {"string", "value"}

\* default dispatch: the hook an item reaches ("" = a default rejection)
Reach(ov, it) ==
  CASE it.form = "word" -> IF "word" \in ov THEN "word" ELSE ""
    [] it.form = "list" -> IF "list" \in ov THEN "list" ELSE ""
    [] it.form = "nv" ->
         IF "value" \in ov THEN "value"
         ELSE CASE it.kind = "bool" -> IF "bool" \in ov THEN "bool" ELSE ""
                [] it.kind = "str"  -> IF "string" \in ov THEN "string" ELSE ""
                [] it.kind = "char" -> IF "char" \in ov THEN "char" ELSE ""
                [] OTHER -> ""

\* what the overridden hook does with the item
\* "yes" / "no" / "open" (the property leaves the outcome open: both accepted, no panic, no other value)
StringHook(t, cls) ==
  CASE t = "bool" -> cls \in {"true", "false"}                       \* str::parse::<bool>
    [] t = "char" -> cls = "one_char"                                 \* exactly one character
    [] t \in {"String", "PathBuf"} -> TRUE
    [] t = "int" -> cls = "digits"                                   \* str::parse::<iN>
    [] t = "float" -> cls \in {"digits", "float"}                    \* str::parse::<fN>

HookAccepts(t, h, it) ==
  CASE h = "word" -> "yes"
    [] h = "bool" -> "yes"
    [] h = "char" -> "yes"
    [] h = "string" -> IF StringHook(t, it.cls) THEN "yes" ELSE "no"
    [] h = "value" ->                         \* from_meta_num! / from_meta_float!: Str -> from_string, Int | Float -> base10_parse
         CASE it.kind = "str" -> IF StringHook(t, it.cls) THEN "yes" ELSE "no"
           [] it.kind = "int" -> IF t = "int" THEN "yes" ELSE "no"
           [] it.kind = "float" -> IF t = "float" THEN "yes" ELSE "no"
           [] OTHER -> "no"

VARIABLES t, it, out
vars == <<t, it, out>>
Init == t \in Targets /\ it \in Items /\ out = ""
Convert == out = "" /\ out' = (LET h == Reach(Overrides(t), it) IN IF h = "" THEN "no" ELSE HookAccepts(t, h, it)) /\ UNCHANGED <<t, it>>
Spec == Init /\ [][Convert]_vars

-----------------------------------------------------------------------------
(* Declarative: "accepted exactly when the target type's standard parsing  *)
(* accepts it; bool additionally the bare word as true, char a             *)
(* one-character string; wrong literal kind or meta form is an error"      *)
StdAccepts(tt, cls) ==      \* would <T as FromStr> accept a string of this class?
  CASE tt = "bool" -> cls \in {"true", "false"}
    [] tt = "char" -> cls = "one_char"
    [] tt \in {"String", "PathBuf"} -> TRUE
    [] tt = "int" -> cls = "digits"
    [] tt = "float" -> cls \in {"digits", "float"}

Should(tt, i) ==
  CASE i.form = "word" -> IF tt = "bool" THEN "yes" ELSE "no"
    [] i.form = "list" -> "no"
    [] i.kind = "str" -> IF StdAccepts(tt, i.cls) THEN "yes" ELSE "no"
    [] i.kind = "bool" -> IF tt = "bool" THEN "yes" ELSE "no"
    [] i.kind = "char" -> IF tt = "char" THEN "yes" ELSE "no"
    [] i.kind = "int" -> IF tt = "int" THEN "yes" ELSE IF tt = "float" THEN "open" ELSE "no"   \* an integer literal for a float: left open
    [] i.kind = "float" -> IF tt = "float" THEN "yes" ELSE "no"
    [] OTHER -> "no"

C11_Forms == out # "" => (Should(t, it) = "open" \/ out = Should(t, it))

EmitDone == (EMIT /\ out # "") => Emit("REPLAY", [t |-> t, it |-> it, expect |-> Should(t, it), model |-> out])
=============================================================================
