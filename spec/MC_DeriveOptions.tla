--------------------------- MODULE MC_DeriveOptions ---------------------------
EXTENDS DeriveOptions
AllDerives == {"FromMeta", "FromDeriveInput", "FromField", "FromVariant", "FromTypeParam", "FromAttributes"}

\* field options in every form the code distinguishes
FieldAlpha ==
  {It("rename", "str"), It("rename", "word"), It("default", "word"), It("default", "path"), It("default", "words"),
   It("with", "path"), It("with", "closure"), It("with", "str"), It("skip", "word"), It("skip", "false"), It("skip", "str"),
   It("map", "str"), It("and_then", "path"), It("map", "closure"), It("multiple", "word"), It("multiple", "false"),
   It("flatten", "word"), It("flatten", "true"), It("flatten", "empty"), It("skip", "empty"), It("bogus", "word")}
FieldAlphaSmall == {It("flatten", "empty"), It("flatten", "word"), It("rename", "str"), It("skip", "word"), It("flatten", "true"), It("rename", "word"), It("with", "str"), It("multiple", "str")}

VariantAlpha == {It("skip", "empty"), It("rename", "str"), It("rename", "true"), It("skip", "word"), It("skip", "false"), It("word", "word"), It("word", "false"), It("word", "str"), It("bogus", "str")}

ContainerAlpha ==
  {It("default", "word"), It("default", "words"), It("rename_all", "rule"), It("rename_all", "str"), It("map", "str"), It("and_then", "str"),
   It("allow_unknown_fields", "word"), It("allow_unknown_fields", "str"), It("attributes", "words"), It("attributes", "str"),
   It("forward_attrs", "word"), It("forward_attrs", "words"), It("forward_attrs", "empty"), It("from_ident", "word"), It("from_word", "path"), It("from_word", "str"),
   It("from_none", "closure"), It("supports", "shapes"), It("supports", "badshape"), It("supports", "dblprefix"), It("supports", "anybad"), It("supports", "litshape"), It("supports", "nvshape"), It("supports", "pathshape"), It("bogus", "words"),
   It("::map", "str"), It("::default", "word"), It("bound", "preds"), It("bound", "str"), It("bound", "word")}      \* a leading `::` makes it another name
ContainerSmall == {It("from_word", "path"), It("attributes", "words"), It("forward_attrs", "word")}
AttrForms == {It("@bare", ""), It("@nv", ""), It("@lit", ""), It("@junk", "")}
AttrContainer == AttrForms \cup {It("default", "word"), It("bogus", "word")}
AttrField == AttrForms \cup {It("rename", "str"), It("flatten", "word")}
AttrVariant == AttrForms \cup {It("skip", "word")}
FieldDerives == {"FromMeta", "FromDeriveInput"}
FieldShapes == {"named"}
ContDerives == AllDerives
ContShapes == {"named", "named_attrs", "named_attrs_with", "named0", "unit", "newtype", "tuple2", "tuple0", "enum", "enum0", "union"}
EnumDerives == {"FromMeta"}
EnumShapes == {"enum"}
AttrShapes == {"named", "enum", "unit"}
VFieldVariant == {It("skip", "word"), It("skip", "false"), It("rename", "str"), It("bogus", "str")}
=============================================================================
