SPECIFICATION TraceSpec
CONSTANTS
  Kinds = {"dup"}
  Names = {"x"}
  Locs = {"a", "b"}
  SpanIds = {1, 2}
  MaxPool = 6
  MaxLeaves = 12
  MaxLoc = 99
  MaxArity = 5
  EMIT = FALSE
INVARIANT AllLaws
POSTCONDITION TraceAccepted
CHECK_DEADLOCK FALSE
