------------------------------ MODULE ImplBounds ------------------------------
(***************************************************************************)
(* Which bounds an emitted implementation carries (codegen/trait_impl.rs:   *)
(* 34-75 used_type_params, outer_from_impl.rs:41-62 compute_impl_bounds):   *)
(* the receiver's generics and where-clause repeated unchanged, and the     *)
(* conversion-trait bound added to exactly the declared type parameters     *)
(* used by fields that are actually parsed (not skipped; for enums: of      *)
(* variants that are not skipped).                                          *)
(*                                                                         *)
(* A declaration: kind "struct" (fields) or "enum" (variants of fields);    *)
(* a field is [uses, skip, flatten]: the set of declared parameters its     *)
(* type uses (what Usage.tla decides), whether it carries #[darling(skip)]  *)
(* and whether it is the flatten member (parsed through from_list, so its   *)
(* parameters need the bound like any other parsed field's).                *)
(***************************************************************************)
EXTENDS Common, SequencesExt

CONSTANTS EMIT
Declared == {"T", "U", "V"}
FieldUses == {{}, {"T"}, {"U"}, {"T", "U"}}          \* (the longer lists below also use V)
Fld3(u, s, fl) == [uses |-> u, skip |-> s, flatten |-> fl]
Fld(u, s) == Fld3(u, s, FALSE)
Fields == {Fld(u, s) : u \in FieldUses, s \in BOOLEAN} \cup {Fld3(u, FALSE, TRUE) : u \in FieldUses}
FieldSeqs == {<<>>} \cup {<<f>> : f \in Fields} \cup {<<f, g>> : f \in Fields, g \in {Fld({"U"}, FALSE), Fld({"T"}, TRUE), Fld({}, FALSE)}}
             \* longer lists in which a parameter is used again before another one's first use (the answer is a union, not a count)
             \cup {<<Fld({"T"}, FALSE), Fld({"T"}, FALSE), Fld({"T"}, FALSE), Fld({"U"}, FALSE)>>,
                   <<Fld({"T", "U"}, FALSE), Fld({"T"}, FALSE), Fld({"V"}, FALSE)>>,
                   <<Fld({"T"}, FALSE), Fld({"T"}, TRUE), Fld({"T", "U"}, FALSE), Fld({"V"}, FALSE), Fld({"U"}, FALSE)>>}
Var(fs, s) == [fs |-> fs, skip |-> s]

VARIABLES kind, fields, variants, out
vars == <<kind, fields, variants, out>>
Init ==
  /\ kind \in {"struct", "enum"}
  /\ fields \in (IF kind = "struct" THEN FieldSeqs ELSE {<<>>})
  /\ variants \in (IF kind = "enum" THEN {<<Var(f, s)>> : f \in FieldSeqs, s \in BOOLEAN} \cup {<<Var(f, s), Var(<<Fld({"U"}, FALSE)>>, t)>> : f \in FieldSeqs, s \in BOOLEAN, t \in BOOLEAN}
                   ELSE {<<>>})
  /\ out = <<"?">>

\* type_params_in_fields with the `!f.skip` filter; enums fold over the variants passing `!v.skip`
InFields(fs) == UNION {IF fs[i].skip THEN {} ELSE fs[i].uses : i \in 1..Len(fs)}
Used == IF kind = "struct" THEN InFields(fields)
        ELSE UNION {IF variants[j].skip THEN {} ELSE InFields(variants[j].fs) : j \in 1..Len(variants)}
Compute == out = <<"?">> /\ out' = SetToSeq(Used \cap Declared) /\ UNCHANGED <<kind, fields, variants>>
Spec == Init /\ [][Compute]_vars

\* declarative: a parameter gets the bound iff some parsed field's type uses it
Parsed == IF kind = "struct" THEN {fields[i] : i \in {i \in 1..Len(fields) : ~fields[i].skip}}
          ELSE UNION {{variants[j].fs[i] : i \in {i \in 1..Len(variants[j].fs) : ~variants[j].fs[i].skip}} : j \in {j \in 1..Len(variants) : ~variants[j].skip}}
Needs == {p \in Declared : \E f \in Parsed : p \in f.uses}
C19_Bounds == out # <<"?">> => Range(out) = Needs
EmitDone == (EMIT /\ out # <<"?">>) => Emit("REPLAY", [kind |-> kind, fields |-> [i \in 1..Len(fields) |-> [uses |-> SetToSeq(fields[i].uses), skip |-> fields[i].skip, flatten |-> fields[i].flatten]],
   variants |-> [j \in 1..Len(variants) |-> [skip |-> variants[j].skip, fs |-> [i \in 1..Len(variants[j].fs) |-> [uses |-> SetToSeq(variants[j].fs[i].uses), skip |-> variants[j].fs[i].skip, flatten |-> variants[j].fs[i].flatten]]]],
   expect |-> SetToSeq(Needs)])
=============================================================================
