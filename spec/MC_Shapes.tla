------------------------------ MODULE MC_Shapes ------------------------------
EXTENDS Shapes, IOUtils
AllFamilies == (SUBSET AllWords) \cup ((SUBSET VariantWords) \ {{}}) \cup {{"v_"}}
\* the word sets of the compiled receiver family (ndjson: one [words: <<..>>] per line)
FamRows == ndJsonDeserialize(IOEnv.FAMILY)
CompiledFamilies == {Range(FamRows[i].words) : i \in 1..Len(FamRows)}
\* the stand-alone ShapeSet API: one line per (set, shape)
ASSUME EMIT => \A S \in SUBSET Styles : \A s \in Styles :
         Emit("API", [set |-> SetToSeq(S), shape |-> s, contains |-> Admits(S, s), empty |-> (S = {})])
=============================================================================
