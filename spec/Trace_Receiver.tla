---------------------------- MODULE Trace_Receiver ----------------------------
(***************************************************************************)
(* Trace validation for derived receivers: every execution recorded from   *)
(* the real parsers (`vhc record`: random inputs longer and split into     *)
(* more attributes than the exhaustive bounds) must be the behaviour the   *)
(* machine of Receiver.tla has on that input, and must satisfy the         *)
(* declarative side (ReceiverProps) - value, bag of mistakes, spans,       *)
(* suggestions, forwarded attributes.                                      *)
(***************************************************************************)
EXTENDS ReceiverProps

Rec == ndJsonDeserialize(IOEnv.TRACE)
VARIABLE l
tvars == <<did, attrs, st, fwd, open, done, result, l>>

\* big-step behaviour of the machine on a whole input
RunInput(S, as) ==
  IF S.trait = "FromMeta" THEN ParseStruct(S, S.rename_all, as[1].items, <<1>>, <<>>, NoSpan) ELSE RunAll(S, as)

ObsLeafKey(o) == <<o.cls, o.n, o.loc>>
ObsFits(o, ms) ==
  \E i \in 1..Len(ms) :
    /\ MistakeKey(ms[i]) = ObsLeafKey(o)
    /\ IF ms[i].pos = <<>> THEN o.spos = <<>>
       ELSE /\ IsPrefixOf(ms[i].pos, o.spos)
            /\ ms[i].eq => (o.spos = ms[i].pos /\ o.exact)
    /\ (o.cls = "unknown" => \E j \in 1..Len(ms[i].alts) : ms[i].alts[j] = o.alt)
    /\ (o.cls # "unknown" => o.alt = "")

Accepts(e) ==
  LET S == D(e.did)
      r == RunInput(S, e.attrs)
      ms == MistakesOf(S, e.attrs)
      lv == IF r.ok THEN <<>> ELSE IntoVec(r.e)
  IN /\ ~e.panic
     /\ e.ok = r.ok /\ e.ok = (ms = <<>>)                                   \* fails iff there is a mistake
     /\ e.ok => e.v = r.v /\ e.v = ExpectedOf(S, e.attrs)                    \* the declared field mapping
     /\ (e.ok /\ e.has_fwd) => e.fwd = ForwardedOf(S, e.attrs)
     /\ ~e.ok => /\ Len(e.leaves) = Len(ms)                                  \* one leaf per mistake
                 /\ \A i \in 1..Len(ms) : CountIn(e.leaves, MistakeKey(ms[i]), ObsLeafKey) = CountIn(ms, MistakeKey(ms[i]), MistakeKey)
                 /\ \A i \in 1..Len(e.leaves) : ObsFits(e.leaves[i], ms)
                 /\ Len(lv) = Len(e.leaves)
                 /\ \A i \in 1..Len(lv) : LeafKey(lv[i]) = ObsLeafKey(e.leaves[i])   \* and in the machine's order

\* the machine's own variables play no role here (the whole input is folded by RunInput)
TInit == /\ did = (CHOOSE x \in Roots : TRUE) /\ attrs = <<>> /\ st = InitSt(D(did)) /\ fwd = <<>> /\ open = FALSE
         /\ done = FALSE /\ result = Ok("") /\ l = 1
TNext == /\ l <= Len(Rec) /\ Accepts(Rec[l]) /\ l' = l + 1
         /\ UNCHANGED <<did, attrs, st, fwd, open, done, result>>
TraceSpec == TInit /\ [][TNext]_tvars

TraceAccepted ==
  LET d == TLCGet("stats").diameter IN
  IF d - 1 = Len(Rec) THEN TRUE ELSE Print(<<"TRACE-REJECTED at event", d, Rec[d]>>, FALSE)
=============================================================================
