------------------------- MODULE Trace_ErrorAlgebra -------------------------
(* Trace validation: every execution recorded from the real darling::Error  *)
(* (harness `vh record erralg`) must be a behaviour of ErrorAlgebra, and    *)
(* every law must hold in every state of it.                                *)
EXTENDS ErrorAlgebra, IOUtils

Rec == ndJsonDeserialize(IOEnv.TRACE)

VARIABLE l
tvars == <<pool, l>>

Ev == Rec[l]
O  == Ev.op

TInit == pool = <<>> /\ l = 1

Apply ==
  CASE O.name = "reset"     -> <<>>
    [] O.name = "leaf"      -> Append(pool, Leaf(O.a, O.b))
    [] O.name = "at"        -> [pool EXCEPT ![O.i] = At(@, O.a)]
    [] O.name = "with_span" -> [pool EXCEPT ![O.i] = WithSpan(@, SpanAt(<<O.s>>, "item"))]
    [] O.name = "multiple"  -> Append(RemoveAll(pool, Range(O.sel)),
                                      Multiple([j \in 1..Len(O.sel) |-> pool[O.sel[j]]]))
    [] O.name = "flatten"   -> [pool EXCEPT ![O.i] = Flatten(@)]
    [] O.name = "clone"     -> Append(pool, pool[O.i])
    [] O.name = "into_iter" -> RemoveAt(pool, O.i) \o IntoIter(pool[O.i])
    [] O.name = "drop"      -> RemoveAt(pool, O.i)

TNext ==
  /\ l <= Len(Rec)
  /\ l' = l + 1
  /\ pool' = Apply
  /\ pool' = Ev.pool                      \* the projected real state is the spec's state
  /\ Ev.ev = "op" =>
       \A i \in 1..Len(pool') :           \* and the scalar observations agree
          /\ Ev.obs[i].len = Count(pool'[i])
          /\ Ev.obs[i].nflat = Len(LeavesD(pool'[i], <<>>))
          /\ Ev.obs[i].nsyn = Len(ToSyn(pool'[i]))

TraceSpec == TInit /\ [][TNext]_tvars

TraceAccepted ==
  LET d == TLCGet("stats").diameter IN
  IF d - 1 = Len(Rec) THEN TRUE
  ELSE Print(<<"TRACE-REJECTED at event", d, Rec[d]>>, FALSE)
=============================================================================
