------------------------------ MODULE ErrorOps ------------------------------
(***************************************************************************)
(* darling::Error as an algebra of trees (core/src/error/mod.rs, kind.rs): *)
(* the pure operators, shared by every specification that produces errors. *)
(*                                                                         *)
(* A value is a record  [k, n, loc, sp, alt, ch]:                          *)
(*   k   leaf kind ("custom","dup","missing","unknown","shape","format",   *)
(*       "type","value","toofew","toomany","rejected") or "multi"          *)
(*   n   the kind's argument (field name / message / count as text)        *)
(*   loc outer-to-inner location path (Error.locations)                    *)
(*   sp  NoSpan, or [pos, part]: the position (index path) of the source   *)
(*       item the span covers and which part of it (item/value/name/...)   *)
(*   alt did-you-mean suggestion of an unknown-field leaf ("" = none)      *)
(*   ch  children of a bundle, in order (ErrorKind::Multiple)              *)
(*                                                                         *)
(* Every operator transcribes one method of the implementation; LeavesD    *)
(* and the Law* predicates are written independently from the property     *)
(* text.                                                                   *)
(***************************************************************************)
EXTENDS Common

NoSpan == [pos |-> <<>>, part |-> ""]
SpanAt(pos, part) == [pos |-> pos, part |-> part]

IsMulti(e) == e.k = "multi"

Leaf(k, n) == [k |-> k, n |-> n, loc |-> <<>>, sp |-> NoSpan, alt |-> "", ch |-> <<>>]

\* Error::at (mod.rs:383): prepend
At(e, l) == [e EXCEPT !.loc = <<l>> \o @]

\* Error::with_span (mod.rs:323): first writer wins
WithSpan(e, s) == IF e.sp = NoSpan THEN [e EXCEPT !.sp = s] ELSE e

\* Error::multiple (mod.rs:277): 1 -> the element, n -> bundle (0 panics: see MultipleEmpty)
Multiple(es) ==
  IF Len(es) = 1 THEN es[1]
  ELSE [k |-> "multi", n |-> "", loc |-> <<>>, sp |-> NoSpan, alt |-> "", ch |-> es]

\* ErrorKind::len (kind.rs:57)
RECURSIVE Count(_)
Count(e) == IF IsMulti(e) THEN SumSeq([i \in 1..Len(e.ch) |-> Count(e.ch[i])]) ELSE 1

\* Error::prepend_at (mod.rs:449)
PrependAt(e, locs) == IF locs = <<>> THEN e ELSE [e EXCEPT !.loc = locs \o @]

\* Error::into_vec (mod.rs:354): recursive flat_map; a child without a span of its own inherits
\* the span of the bundle that contained it
InheritSpan(c, sp) == IF c.sp = NoSpan THEN [c EXCEPT !.sp = sp] ELSE c
RECURSIVE IntoVec(_)
IntoVec(e) ==
  IF IsMulti(e)
  THEN ConcatAll([i \in 1..Len(e.ch) |-> IntoVec(InheritSpan(PrependAt(e.ch[i], e.loc), e.sp))])
  ELSE <<e>>

\* Error::flatten (mod.rs:350)
Flatten(e) == Multiple(IntoVec(e))

\* IntoIterator (mod.rs:701): one level, children as stored
IntoIter(e) == IF IsMulti(e) THEN e.ch ELSE <<e>>

\* Message of a leaf: the text is the crate's own (public constructor, evaluated by
\* the harness); the spec carries it symbolically.
Msg(e) == "<" \o e.k \o "|" \o e.n \o (IF e.alt = "" THEN "" ELSE "|" \o e.alt) \o ">"

\* Display (mod.rs:636, kind.rs:66)
RECURSIVE Display(_), KindStr(_)
KindStr(e) ==
  IF IsMulti(e)
  THEN "Multiple errors: (" \o JoinStr([i \in 1..Len(e.ch) |-> Display(e.ch[i])], ", ") \o ")"
  ELSE Msg(e)
Display(e) == KindStr(e) \o (IF e.loc = <<>> THEN "" ELSE " at " \o JoinStr(e.loc, "/"))

\* From<Error> for syn::Error (mod.rs:660): one message per flattened leaf
ToSyn1(e) == IF e.sp # NoSpan THEN [msg |-> KindStr(e), sp |-> e.sp] ELSE [msg |-> Display(e), sp |-> NoSpan]
ToSyn(e) ==
  IF Count(e) = 1 THEN <<ToSyn1(e)>>
  ELSE LET v == IntoIter(Flatten(e)) IN [i \in 1..Len(v) |-> ToSyn1(v[i])]

-----------------------------------------------------------------------------
(* Declarative side: the leaves of a tree with their full paths, by a      *)
(* top-down walk that never looks at the operators above.                  *)

\* ... and with its own span or, if it has none, that of its nearest spanned ancestor
RECURSIVE LeavesI(_, _, _)
LeavesI(e, prefix, inh) ==
  LET own == IF e.sp # NoSpan THEN e.sp ELSE inh IN
  IF IsMulti(e)
  THEN ConcatAll([i \in 1..Len(e.ch) |-> LeavesI(e.ch[i], prefix \o e.loc, own)])
  ELSE <<[e EXCEPT !.loc = prefix \o e.loc, !.sp = own]>>
LeavesD(e, prefix) == LeavesI(e, prefix, NoSpan)

RECURSIVE WellFormed(_)
WellFormed(e) ==
  /\ IF IsMulti(e)
     THEN Len(e.ch) >= 2 /\ \A i \in 1..Len(e.ch) : WellFormed(e.ch[i])
     ELSE e.ch = <<>>

\* C04, clause by clause
LawCount(e)      == Count(e) = Len(LeavesD(e, <<>>)) /\ Count(e) >= 1
LawSingleton(e)  == Multiple(<<e>>) = e
LawFlatten(e)    == IntoVec(e) = LeavesD(e, <<>>)
LawIdempotent(e) == Flatten(Flatten(e)) = Flatten(e)
LawDisplay(e, Locs)    ==
  /\ ~IsMulti(e) => Display(e) = Msg(e) \o (IF e.loc = <<>> THEN "" ELSE " at " \o JoinStr(e.loc, "/"))
  /\ \A l \in Locs : At(e, l).loc = <<l>> \o e.loc
LawToSyn(e)      ==
  LET lv == LeavesD(e, <<>>) s == ToSyn(e) IN
  /\ Len(s) = Count(e)
  /\ \A i \in 1..Len(s) :
       /\ s[i].sp = lv[i].sp                               \* C03: the leaf's own span survives
       /\ s[i].msg = IF lv[i].sp # NoSpan THEN Msg(lv[i]) ELSE Display(lv[i])  \* unspanned => path rendered
\* C03: flattening keeps each leaf's span
LawSpanKept(e)   ==
  LET lv == LeavesD(e, <<>>) v == IntoVec(e) IN \A i \in 1..Len(v) : v[i].sp = lv[i].sp

\* C03: "a span once attached is never replaced by a coarser one" - no operator that
\* keeps the node can change a span that is set; an unset one is set by with_span only
LawSpanMonotone(e, Locs, Spans) ==
  /\ \A s \in Spans : WithSpan(e, s).sp = (IF e.sp # NoSpan THEN e.sp ELSE s)
  /\ \A l \in Locs : At(e, l).sp = e.sp
  /\ ~IsMulti(e) => Flatten(e).sp = e.sp

Laws(e, Locs, Spans) == /\ WellFormed(e) /\ LawSpanMonotone(e, Locs, Spans) /\ LawCount(e) /\ LawSingleton(e) /\ LawFlatten(e)
           /\ LawIdempotent(e) /\ LawDisplay(e, Locs) /\ LawToSyn(e) /\ LawSpanKept(e)

-----------------------------------------------------------------------------
(* What the harness can observe of a real value through the public API     *)

Obs(e) ==
  [len  |-> Count(e),
   disp |-> Display(e),
   flat |-> LET v == IntoIter(Flatten(e)) IN [i \in 1..Len(v) |-> [d |-> Display(v[i]), sp |-> v[i].sp]],
   syn  |-> ToSyn(e)]

=============================================================================
