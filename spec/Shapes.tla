------------------------------- MODULE Shapes -------------------------------
(***************************************************************************)
(* Shape validation: `supports(...)` on FromDeriveInput / FromVariant      *)
(* receivers (options/shape.rs, util/shape.rs).                            *)
(*                                                                         *)
(* Operational side, one operator per piece of code:                       *)
(*   ParseWords     DeriveInputShapeSet::from_list + DataShape::set_word   *)
(*   SetOf          DataShape::to_tokens -> ShapeSet::new(..)              *)
(*   Contains       ShapeSet::contains_shape (tuple also admits newtype)   *)
(*   ValidateBody   the generated __validate_body                          *)
(* Declarative side: the documented table (README "Shape Validation").     *)
(***************************************************************************)
EXTENDS Common, SequencesExt

CONSTANTS Families,      \* the declared word sets TLC draws from (sets of words)
          MaxVariants, EMIT

Styles == {"named", "tuple", "newtype", "unit"}
StructWords == {"struct_" \o s : s \in Styles} \cup {"struct_any"}
EnumWords   == {"enum_" \o s : s \in Styles} \cup {"enum_any"}
AllWords    == StructWords \cup EnumWords \cup {"any"}
\* the FromVariant form: unprefixed words (written v_* here), checked against one variant's fields
VariantWords == {"v_" \o s : s \in Styles} \cup {"v_any"}
IsVariantForm(W) == (W # {} /\ W \subseteq VariantWords) \/ W = {"v_"}

\* bodies: [kind |-> "struct", style], [kind |-> "enum", vs |-> Seq(Styles)], [kind |-> "union"]
Bodies ==
  {[kind |-> "struct", style |-> s, vs |-> <<>>] : s \in Styles}
  \cup {[kind |-> "enum", style |-> "", vs |-> v] : v \in UNION {[1..n -> Styles] : n \in 0..MaxVariants}}
  \cup {[kind |-> "union", style |-> "", vs |-> <<>>]}
VariantBodies == {[kind |-> "variant", style |-> s, vs |-> <<>>] : s \in Styles}

VARIABLES words, body, verdict
vars == <<words, body, verdict>>

-----------------------------------------------------------------------------
(* Operational                                                             *)

\* DataShape after set_word on every word with the side's prefix
Side(W, prefix) == [s \in Styles \cup {"any"} |-> (prefix \o s) \in W]

\* DataShape::to_tokens -> the four-flag ShapeSet
SetOf(ds) == [s \in Styles |-> ds["any"] \/ ds[s]]

IsEmpty(ss) == ~ss["named"] /\ ~ss["newtype"] /\ ~ss["tuple"] /\ ~ss["unit"]
ContainsShape(ss, s) == IF s = "newtype" THEN ss["newtype"] \/ ss["tuple"] ELSE ss[s]

\* verdict: [ok, n (error leaves), panic]
V(ok, n) == [ok |-> ok, n |-> n, panic |-> FALSE]

ValidateBody(W, b) ==
  IF b.kind = "variant"      \* from_variant_impl.rs:61-65: ShapeSet::check(&variant.fields)
  THEN LET ss == SetOf(Side(W, "v_")) IN V(ContainsShape(ss, b.style), IF ContainsShape(ss, b.style) THEN 0 ELSE 1)
  ELSE IF "any" \in W THEN V(TRUE, 0)
  ELSE LET st == SetOf(Side(W, "struct_")) en == SetOf(Side(W, "enum_")) IN
    CASE b.kind = "enum" ->
           IF IsEmpty(en) THEN V(FALSE, 1)
           ELSE LET bad == {i \in 1..Len(b.vs) : ~ContainsShape(en, b.vs[i])} IN V(bad = {}, Cardinality(bad))
      [] b.kind = "struct" ->
           IF IsEmpty(st) THEN V(FALSE, 1)
           ELSE V(ContainsShape(st, b.style), IF ContainsShape(st, b.style) THEN 0 ELSE 1)
      [] b.kind = "union" -> V(FALSE, 1)          \* an unsupported-shape error (options/shape.rs)

Init == words \in Families /\ body \in (IF IsVariantForm(words) THEN VariantBodies ELSE Bodies) /\ verdict = [ok |-> TRUE, n |-> 99, panic |-> FALSE]
Validate == verdict.n = 99 /\ verdict' = ValidateBody(words, body) /\ UNCHANGED <<words, body>>
Spec == Init /\ [][Validate]_vars
Done == verdict.n # 99

-----------------------------------------------------------------------------
(* Declarative: the documented table                                       *)

Declared(W, kind) ==   \* the styles the words of that kind add up to
  {s \in Styles : (kind \o "_" \o s) \in W \/ (kind \o "_any") \in W}
Admits(S, s) == s \in S \/ (s = "newtype" /\ "tuple" \in S)     \* a tuple word also admits newtypes, not the reverse

Accepts(W, b) ==
  \/ b.kind = "variant" /\ Admits(Declared(W, "v"), b.style)
  \/ b.kind # "variant" /\ "any" \in W
  \/ b.kind = "struct" /\ Admits(Declared(W, "struct"), b.style)
  \/ b.kind = "enum" /\ Declared(W, "enum") # {} /\ \A i \in 1..Len(b.vs) : Admits(Declared(W, "enum"), b.vs[i])

Errors(W, b) ==
  IF Accepts(W, b) THEN 0
  ELSE IF b.kind = "enum" /\ Declared(W, "enum") # {}
       THEN Cardinality({i \in 1..Len(b.vs) : ~Admits(Declared(W, "enum"), b.vs[i])})   \* one per non-conforming variant
       ELSE 1

C18_Table == Done => (verdict.ok = Accepts(words, body) /\ verdict.n = Errors(words, body))
C18_NoCrash == ~verdict.panic

\* the stand-alone ShapeSet API over all 2^4 sets x 4 shapes gives the same verdicts as a struct_* declaration
ApiAgrees ==
  \A S \in SUBSET Styles : \A s \in Styles :
    LET ss == [x \in Styles |-> x \in S] IN ContainsShape(ss, s) = Admits(S, s) /\ IsEmpty(ss) = (S = {})

EmitDone == (EMIT /\ Done) =>
  Emit("REPLAY", [words |-> SetToSeq(words), body |-> body,
                  expect |-> [ok |-> Accepts(words, body), n |-> Errors(words, body)],
                  model |-> [ok |-> verdict.ok, n |-> verdict.n]])
=============================================================================
