-------------------------------- MODULE Usage --------------------------------
(***************************************************************************)
(* Generic-parameter usage analysis (core/src/usage/type_params.rs,        *)
(* lifetimes.rs).                                                          *)
(*                                                                         *)
(* A type is a term (record N below).  TLC builds terms by wrapping: the   *)
(* state is one term, each action wraps it in one more type constructor    *)
(* (with fixed siblings where a constructor has several children), so      *)
(* every chain of constructors up to MaxDepth around every leaf is         *)
(* explored.                                                               *)
(*                                                                         *)
(* Operational: Uses / UsesLt transcribe the recursion of the code.        *)
(* Declarative: Occ / OccLt collect EVERY identifier / lifetime occurrence *)
(* of the term with the role it plays there (leading unqualified segment,  *)
(* global or later segment, associated name, const argument, bound         *)
(* lifetime, inside a qualified self or not), without any notion of "use"; *)
(* a parameter is used iff it occurs in a role that denotes it.            *)
(***************************************************************************)
EXTENDS Common, SequencesExt

CONSTANTS MaxDepth, EMIT

\* ---- terms ---------------------------------------------------------------
\* k: "path" | "ref" | "ptr" | "slice" | "array" | "paren" | "tuple" | "fn" | "dyn" | "macro" | "never" | "infer"
N(k, lead, segs, qself, lt, ch, out, bl, bounds) ==
  [k |-> k, lead |-> lead, segs |-> segs, qself |-> qself, lt |-> lt, ch |-> ch, out |-> out, bl |-> bl, bounds |-> bounds]
Seg(id, args) == [id |-> id, args |-> args]
Path(lead, segs, qself) == N("path", lead, segs, qself, "", <<>>, <<>>, <<>>, <<>>)
Un(k, lt, t) == N(k, FALSE, <<>>, <<>>, lt, <<t>>, <<>>, <<>>, <<>>)
Leaf(k) == N(k, FALSE, <<>>, <<>>, "", <<>>, <<>>, <<>>, <<>>)
P1(id) == Path(FALSE, <<Seg(id, <<>>)>>, <<>>)
\* generic arguments
Arg(a, id, t, bounds) == [a |-> a, id |-> id, t |-> t, bounds |-> bounds]
ATy(t) == Arg("ty", "", <<t>>, <<>>)
ALt(l) == Arg("lt", l, <<>>, <<>>)
AConst(id) == Arg("const", id, <<>>, <<>>)
AAssoc(id, t) == Arg("assoc", id, <<t>>, <<>>)
AConstraint(id, bs) == Arg("constraint", id, <<>>, bs)
\* bounds
BTrait(p, bl) == [b |-> "trait", path |-> <<p>>, lt |-> "", bl |-> bl]
BLt(l) == [b |-> "lt", path |-> <<>>, lt |-> l, bl |-> <<>>]

Leaves ==
  {P1("T"), P1("U"), P1("X"),
   Path(TRUE, <<Seg("T", <<>>)>>, <<>>),                       \* ::T        a global path, not the parameter
   Path(FALSE, <<Seg("m", <<>>), Seg("T", <<>>)>>, <<>>),       \* m::T       T as a later segment
   Path(FALSE, <<Seg("T", <<>>), Seg("Item", <<>>)>>, <<>>),    \* T::Item    the parameter's associated type
   Leaf("macro"), Leaf("never"), Leaf("infer")}

Wrappers(t) ==
  {Un("ref", "", t), Un("ref", "a", t), Un("ref", "z", t), Un("ptr", "", t), Un("slice", "", t), Un("array", "", t), Un("paren", "", t),
   N("tuple", FALSE, <<>>, <<>>, "", <<t, P1("U")>>, <<>>, <<>>, <<>>),
   N("fn", FALSE, <<>>, <<>>, "", <<t>>, <<P1("X")>>, <<>>, <<>>),                       \* fn(t) -> X
   N("fn", FALSE, <<>>, <<>>, "", <<>>, <<t>>, <<>>, <<>>),                              \* fn() -> t
   N("fn", FALSE, <<>>, <<>>, "", <<Un("ref", "c", t), Un("ref", "b", P1("X"))>>, <<>>, <<"c">>, <<>>),   \* for<'c> fn(&'c t, &'b X)
   Path(FALSE, <<Seg("Vec", <<ATy(t)>>)>>, <<>>),                                        \* Vec<t>
   Path(TRUE, <<Seg("std", <<>>), Seg("Vec", <<ATy(t), ALt("a")>>)>>, <<>>),             \* ::std::Vec<t, 'a>
   Path(FALSE, <<Seg("a", <<>>), Seg("B", <<ATy(t)>>), Seg("C", <<>>)>>, <<>>),          \* a::B<t>::C   arguments on a non-final segment
   Path(FALSE, <<Seg("Map", <<AAssoc("T", t), AConst("U")>>)>>, <<>>),                   \* Map<T = t, {U}>   names that are not uses
   Path(FALSE, <<Seg("Tr", <<AConstraint("Item", <<BTrait(Path(FALSE, <<Seg("Bound", <<ATy(t)>>)>>, <<>>), <<>>), BLt("b")>>)>>)>>, <<>>),
   Path(FALSE, <<Seg("Tr", <<ATy(P1("U"))>>), Seg("Out", <<>>)>>, <<t>>),                \* <t as Tr<U>>::Out   qualified self
   N("dyn", FALSE, <<>>, <<>>, "", <<>>, <<>>, <<>>, <<BTrait(Path(FALSE, <<Seg("Tr", <<ATy(t)>>)>>, <<>>), <<>>), BLt("a")>>),   \* dyn Tr<t> + 'a
   N("dyn", FALSE, <<>>, <<>>, "", <<>>, <<>>, <<>>,
     <<BTrait(Path(FALSE, <<Seg("Fn", <<Arg("paren", "", <<Un("ref", "c", t)>>, <<>>)>>)>>, <<>>), <<"c">>)>>)}                  \* dyn for<'c> Fn(&'c t)

VARIABLES ty, depth
vars == <<ty, depth>>
Init == ty \in Leaves /\ depth = 0
Wrap == depth < MaxDepth /\ ty' \in Wrappers(ty) /\ depth' = depth + 1
Spec == Init /\ [][Wrap]_vars

-----------------------------------------------------------------------------
(* Operational: type parameters (type_params.rs)                           *)
RECURSIVE Uses(_, _, _), UsesArgs(_, _, _), UsesBounds(_, _, _), UsesSeq(_, _, _)

UsesSeq(ts, S, declare) == UNION {Uses(ts[i], S, declare) : i \in 1..Len(ts)}

UsesBounds(bs, S, declare) ==
  UNION {IF bs[i].b = "trait" THEN Uses(bs[i].path[1], S, declare) ELSE {} : i \in 1..Len(bs)}     \* TraitBound: its path

UsesArgs(args, S, declare) ==
  UNION {CASE args[i].a \in {"ty", "assoc", "paren"} -> UsesSeq(args[i].t, S, declare)             \* Type, AssocType.ty, Fn(..) inputs
           [] args[i].a = "constraint" -> UsesBounds(args[i].bounds, S, declare)
           [] OTHER -> {} : i \in 1..Len(args)}                                                     \* lifetimes, const expressions

Uses(t, S, declare) ==
  CASE t.k = "path" ->
         \* syn::Path: the first segment if the path is not global, then every segment's arguments;
         \* TypePath adds the qualified self only for Purpose::Declare
         (IF ~t.lead /\ t.segs[1].id \in S THEN {t.segs[1].id} ELSE {})
         \cup UNION {UsesArgs(t.segs[i].args, S, declare) : i \in 1..Len(t.segs)}
         \cup (IF declare THEN UsesSeq(t.qself, S, declare) ELSE {})
    [] t.k \in {"ref", "ptr", "slice", "array", "paren", "tuple"} -> UsesSeq(t.ch, S, declare)
    [] t.k = "fn" -> UsesSeq(t.ch, S, declare) \cup UsesSeq(t.out, S, declare)
    [] t.k = "dyn" -> UsesBounds(t.bounds, S, declare)
    [] OTHER -> {}                                                                                  \* macro, never, infer

(* Operational: lifetimes (lifetimes.rs)                                   *)
RECURSIVE UsesLt(_, _, _), UsesLtArgs(_, _, _), UsesLtBounds(_, _, _), UsesLtSeq(_, _, _)
UsesLtSeq(ts, L, declare) == UNION {UsesLt(ts[i], L, declare) : i \in 1..Len(ts)}
UsesLtBounds(bs, L, declare) ==
  UNION {IF bs[i].b = "trait" THEN UsesLt(bs[i].path[1], L, declare) \cup (Range(bs[i].bl) \cap L)   \* TraitBound: path, lifetimes
         ELSE {bs[i].lt} \cap L : i \in 1..Len(bs)}
UsesLtArgs(args, L, declare) ==
  UNION {CASE args[i].a \in {"ty", "assoc", "paren"} -> UsesLtSeq(args[i].t, L, declare)
           [] args[i].a = "lt" -> {args[i].id} \cap L
           [] args[i].a = "constraint" -> UsesLtBounds(args[i].bounds, L, declare)
           [] OTHER -> {} : i \in 1..Len(args)}
UsesLt(t, L, declare) ==
  CASE t.k = "path" ->
         UNION {UsesLtArgs(t.segs[i].args, L, declare) : i \in 1..Len(t.segs)}
         \cup (IF declare THEN UsesLtSeq(t.qself, L, declare) ELSE {})
    [] t.k = "ref" -> ({t.lt} \cap L) \cup UsesLtSeq(t.ch, L, declare)
    [] t.k \in {"ptr", "slice", "array", "paren", "tuple"} -> UsesLtSeq(t.ch, L, declare)
    [] t.k = "fn" -> UsesLtSeq(t.ch, L, declare) \cup UsesLtSeq(t.out, L, declare)                    \* TypeBareFn: inputs, output
    [] t.k = "dyn" -> UsesLtBounds(t.bounds, L, declare)
    [] OTHER -> {}

-----------------------------------------------------------------------------
(* Declarative: every occurrence with its role                             *)
\* an occurrence: [n: the name, role, q: inside a qualified self]
RECURSIVE Occ(_, _), OccArgs(_, _), OccBounds(_, _)
O(n, role, q) == [n |-> n, role |-> role, q |-> q]
OccSeq(ts, q) == UNION {Occ(ts[i], q) : i \in 1..Len(ts)}
OccBounds(bs, q) ==
  UNION {IF bs[i].b = "trait" THEN Occ(bs[i].path[1], q) \cup {O(bs[i].bl[j], "bound-lifetime", q) : j \in 1..Len(bs[i].bl)}
         ELSE {O(bs[i].lt, "lifetime", q)} : i \in 1..Len(bs)}
OccArgs(args, q) ==
  UNION {CASE args[i].a \in {"ty", "paren"} -> OccSeq(args[i].t, q)
           [] args[i].a = "assoc" -> {O(args[i].id, "assoc-name", q)} \cup OccSeq(args[i].t, q)
           [] args[i].a = "lt" -> {O(args[i].id, "lifetime", q)}
           [] args[i].a = "const" -> {O(args[i].id, "const-arg", q)}
           [] args[i].a = "constraint" -> {O(args[i].id, "assoc-name", q)} \cup OccBounds(args[i].bounds, q) : i \in 1..Len(args)}
Occ(t, q) ==
  CASE t.k = "path" ->
         {O(t.segs[1].id, IF t.lead THEN "global-segment" ELSE "leading-segment", q)}
         \cup {O(t.segs[i].id, "later-segment", q) : i \in 2..Len(t.segs)}
         \cup UNION {OccArgs(t.segs[i].args, q) : i \in 1..Len(t.segs)}
         \cup OccSeq(t.qself, TRUE)
    [] t.k = "ref" -> (IF t.lt = "" THEN {} ELSE {O(t.lt, "lifetime", q)}) \cup OccSeq(t.ch, q)
    [] t.k \in {"ptr", "slice", "array", "paren", "tuple"} -> OccSeq(t.ch, q)
    [] t.k = "fn" -> OccSeq(t.ch, q) \cup OccSeq(t.out, q) \cup {O(t.bl[j], "bound-lifetime", q) : j \in 1..Len(t.bl)}
    [] t.k = "dyn" -> OccBounds(t.bounds, q)
    [] OTHER -> {}

\* a type parameter is used where it is the unqualified leading segment of a path (anywhere in the type, through
\* every structural form and generic argument), inside a qualified self only when asked for declaration purposes
Denotes(t, S, declare) == {o.n : o \in {o \in Occ(t, FALSE) : o.role = "leading-segment" /\ o.n \in S /\ (declare \/ ~o.q)}}
\* a lifetime is used where it is written as a lifetime.  (`for<'c>` binders introduce fresh names; Rust forbids
\* shadowing a lifetime that is in scope, so a binder never carries a declared parameter's name.)
DenotesLt(t, L, declare) == {o.n : o \in {o \in Occ(t, FALSE) : o.role = "lifetime" /\ o.n \in L /\ (declare \/ ~o.q)}}

Sets == {{"T"}, {"T", "U"}, {"U"}, {}}
LtSets == {{"a"}, {"a", "b"}, {}}

C19_Exact ==
  \A S \in Sets : \A d \in BOOLEAN :
     /\ Uses(ty, S, d) = Denotes(ty, S, d)
     /\ Uses(ty, S, d) \subseteq S                                   \* never a name outside the queried set
C19_Union ==   \* the answer for a collection is the union of its members' answers
  \A S \in Sets : \A d \in BOOLEAN : UsesSeq(<<ty, P1("U")>>, S, d) = Uses(ty, S, d) \cup Uses(P1("U"), S, d)
C19_Lifetimes ==
  \A L \in LtSets : \A d \in BOOLEAN :
     UsesLt(ty, L, d) = DenotesLt(ty, L, d)

EmitAll == EMIT =>
  Emit("REPLAY", [ty |-> ty,
                  expect |-> [sets |-> [s \in {"T", "TU", "U", "none"} |->
                                         LET S == CASE s = "T" -> {"T"} [] s = "TU" -> {"T", "U"} [] s = "U" -> {"U"} [] OTHER -> {}
                                         IN [bound |-> SetToSeq(Denotes(ty, S, FALSE)), declare |-> SetToSeq(Denotes(ty, S, TRUE))]],
                              lts |-> [bound |-> SetToSeq(UsesLt(ty, {"a", "b"}, FALSE)), declare |-> SetToSeq(UsesLt(ty, {"a", "b"}, TRUE))]]])
=============================================================================
