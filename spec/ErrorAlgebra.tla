---------------------------- MODULE ErrorAlgebra ----------------------------
(***************************************************************************)
(* The builder machine over darling::Error values: a pool of owned values  *)
(* (Rust ownership: bundling and iterating consume their operand, Clone    *)
(* duplicates) and one action per public operation.  Operators and laws    *)
(* are in ErrorOps.tla.                                                    *)
(***************************************************************************)
EXTENDS ErrorOps

CONSTANTS
  Kinds,      \* leaf kinds used by NewLeaf
  Names,      \* arguments of leaves
  Locs,       \* location segments
  SpanIds,    \* span ids (positive naturals); span i is [pos |-> <<i>>, part |-> "item"]
  MaxPool,    \* live values held at once
  MaxLeaves,  \* total leaves over the whole pool
  MaxLoc,     \* longest location path of a single node
  MaxArity,   \* widest bundle built in one step
  EMIT        \* print one REPLAY line per transition

VARIABLES pool

vars == <<pool>>

Spans == {SpanAt(<<i>>, "item") : i \in SpanIds}

-----------------------------------------------------------------------------
(* The builder machine: a pool of owned values (Rust ownership: bundling   *)
(* and iterating consume their operand, Clone duplicates)                  *)

Init == pool = <<>>

RECURSIVE NodeMaxLoc(_)
NodeMaxLoc(e) ==
  LET here == Len(e.loc) IN
  IF IsMulti(e)
  THEN LET sub == {NodeMaxLoc(e.ch[i]) : i \in 1..Len(e.ch)}
       IN CHOOSE m \in sub \cup {here} : \A x \in sub \cup {here} : m >= x
  ELSE here

TotalLeaves(p) == SumSeq([i \in 1..Len(p) |-> Count(p[i])])

Step(op, post) ==
  /\ pool' = post
  /\ EMIT => Emit("REPLAY", [pre |-> pool, op |-> op, post |-> post,
                             obs |-> [i \in 1..Len(post) |-> Obs(post[i])]])

MkOp(name, i, a, b, s, sel) == [name |-> name, i |-> i, a |-> a, b |-> b, s |-> s, sel |-> sel]

NewLeaf ==
  /\ Len(pool) < MaxPool /\ TotalLeaves(pool) < MaxLeaves
  /\ \E k \in Kinds, n \in Names :
       Step(MkOp("leaf", 0, k, n, 0, <<>>), Append(pool, Leaf(k, n)))

OpAt ==
  \E i \in 1..Len(pool), l \in Locs :
    /\ Len(pool[i].loc) < MaxLoc
    /\ Step(MkOp("at", i, l, "", 0, <<>>), [pool EXCEPT ![i] = At(@, l)])

OpWithSpan ==
  \E i \in 1..Len(pool), s \in Spans :
    Step(MkOp("with_span", i, "", "", s.pos[1], <<>>), [pool EXCEPT ![i] = WithSpan(@, s)])

\* Error::multiple over an ordered selection of distinct pool members (consumed)
OpBundle ==
  \E n \in 1..MaxArity :
    \E sel \in InjSeqs(1..Len(pool), n) :
      Step(MkOp("multiple", 0, "", "", 0, sel),
           Append(RemoveAll(pool, Range(sel)), Multiple([j \in 1..n |-> pool[sel[j]]])))

OpFlatten ==
  \E i \in 1..Len(pool) :
    Step(MkOp("flatten", i, "", "", 0, <<>>), [pool EXCEPT ![i] = Flatten(@)])

OpClone ==
  \E i \in 1..Len(pool) :
    /\ Len(pool) < MaxPool /\ TotalLeaves(pool) + Count(pool[i]) <= MaxLeaves
    /\ Step(MkOp("clone", i, "", "", 0, <<>>), Append(pool, pool[i]))

\* into_iter: the value is consumed, its one-level children become pool members
OpIntoIter ==
  \E i \in 1..Len(pool) :
    /\ Len(pool) - 1 + Len(IntoIter(pool[i])) <= MaxPool
    /\ Step(MkOp("into_iter", i, "", "", 0, <<>>), RemoveAt(pool, i) \o IntoIter(pool[i]))

OpDrop ==
  \E i \in 1..Len(pool) :
    Step(MkOp("drop", i, "", "", 0, <<>>), RemoveAt(pool, i))

Next == NewLeaf \/ OpAt \/ OpWithSpan \/ OpBundle \/ OpFlatten \/ OpClone \/ OpIntoIter \/ OpDrop

Spec == Init /\ [][Next]_vars

-----------------------------------------------------------------------------
(* Properties                                                              *)

AllLaws == \A i \in 1..Len(pool) : Laws(pool[i], Locs, Spans)

Bounded == \A i \in 1..Len(pool) : NodeMaxLoc(pool[i]) <= MaxLoc + 2
=============================================================================
