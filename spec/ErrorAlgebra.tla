---------------------------- MODULE ErrorAlgebra ----------------------------
(***************************************************************************)
(* darling::Error as an algebra of trees (core/src/error/mod.rs, kind.rs). *)
(*                                                                         *)
(* A value is a record  [k, n, loc, sp, alt, ch]:                          *)
(*   k   leaf kind ("custom","dup","missing","unknown","shape","format",   *)
(*       "type","value","toofew","toomany") or "multi" for a bundle        *)
(*   n   the kind's argument (field name / message / count as text)        *)
(*   loc outer-to-inner location path (Error.locations)                    *)
(*   sp  0 = no span, otherwise the id of one concrete source range        *)
(*   alt did-you-mean suggestion of an unknown-field leaf ("" = none)      *)
(*   ch  children of a bundle, in order (ErrorKind::Multiple)              *)
(*                                                                         *)
(* Every operator below transcribes one method of the implementation; the  *)
(* declarative definitions (LeavesD, the Law* predicates) are written      *)
(* independently from the property text and TLC checks that they agree on  *)
(* every value the builder machine can reach.                              *)
(***************************************************************************)
EXTENDS Common

CONSTANTS
  Kinds,      \* leaf kinds used by NewLeaf
  Names,      \* arguments of leaves
  Locs,       \* location segments
  Spans,      \* span ids (positive naturals)
  MaxPool,    \* live values held at once
  MaxLeaves,  \* total leaves over the whole pool
  MaxLoc,     \* longest location path of a single node
  MaxArity,   \* widest bundle built in one step
  EMIT        \* print one REPLAY line per transition

VARIABLES pool

vars == <<pool>>

-----------------------------------------------------------------------------
(* Values and the operators of the implementation                          *)

IsMulti(e) == e.k = "multi"

Leaf(k, n) == [k |-> k, n |-> n, loc |-> <<>>, sp |-> 0, alt |-> "", ch |-> <<>>]

\* Error::at (mod.rs:383): prepend
At(e, l) == [e EXCEPT !.loc = <<l>> \o @]

\* Error::with_span (mod.rs:323): first writer wins
WithSpan(e, s) == IF e.sp = 0 THEN [e EXCEPT !.sp = s] ELSE e

\* Error::multiple (mod.rs:277): 1 -> the element, n -> bundle (0 panics: see MultipleEmpty)
Multiple(es) ==
  IF Len(es) = 1 THEN es[1]
  ELSE [k |-> "multi", n |-> "", loc |-> <<>>, sp |-> 0, alt |-> "", ch |-> es]

\* ErrorKind::len (kind.rs:57)
RECURSIVE Count(_)
Count(e) == IF IsMulti(e) THEN SumSeq([i \in 1..Len(e.ch) |-> Count(e.ch[i])]) ELSE 1

\* Error::prepend_at (mod.rs:449)
PrependAt(e, locs) == IF locs = <<>> THEN e ELSE [e EXCEPT !.loc = locs \o @]

\* Error::into_vec (mod.rs:354): recursive flat_map; the bundle's own span is dropped
RECURSIVE IntoVec(_)
IntoVec(e) ==
  IF IsMulti(e)
  THEN ConcatAll([i \in 1..Len(e.ch) |-> IntoVec(PrependAt(e.ch[i], e.loc))])
  ELSE <<e>>

\* Error::flatten (mod.rs:350)
Flatten(e) == Multiple(IntoVec(e))

\* IntoIterator (mod.rs:701): one level, children as stored
IntoIter(e) == IF IsMulti(e) THEN e.ch ELSE <<e>>

\* Message of a leaf: the text is the crate's own (public constructor, evaluated by
\* the harness); the spec carries it symbolically.
Msg(e) == "<" \o e.k \o "|" \o e.n \o (IF e.alt = "" THEN "" ELSE "|" \o e.alt) \o ">"

\* Display (mod.rs:636, kind.rs:66)
RECURSIVE Display(_), KindStr(_)
KindStr(e) ==
  IF IsMulti(e)
  THEN "Multiple errors: (" \o JoinStr([i \in 1..Len(e.ch) |-> Display(e.ch[i])], ", ") \o ")"
  ELSE Msg(e)
Display(e) == KindStr(e) \o (IF e.loc = <<>> THEN "" ELSE " at " \o JoinStr(e.loc, "/"))

\* From<Error> for syn::Error (mod.rs:660): one message per flattened leaf
ToSyn1(e) == IF e.sp # 0 THEN [msg |-> KindStr(e), sp |-> e.sp] ELSE [msg |-> Display(e), sp |-> 0]
ToSyn(e) ==
  IF Count(e) = 1 THEN <<ToSyn1(e)>>
  ELSE LET v == IntoIter(Flatten(e)) IN [i \in 1..Len(v) |-> ToSyn1(v[i])]

-----------------------------------------------------------------------------
(* Declarative side: the leaves of a tree with their full paths, by a      *)
(* top-down walk that never looks at the operators above.                  *)

RECURSIVE LeavesD(_, _)
LeavesD(e, prefix) ==
  IF IsMulti(e)
  THEN ConcatAll([i \in 1..Len(e.ch) |-> LeavesD(e.ch[i], prefix \o e.loc)])
  ELSE <<[e EXCEPT !.loc = prefix \o e.loc]>>

RECURSIVE WellFormed(_)
WellFormed(e) ==
  /\ e.sp \in Nat
  /\ IF IsMulti(e)
     THEN Len(e.ch) >= 2 /\ \A i \in 1..Len(e.ch) : WellFormed(e.ch[i])
     ELSE e.ch = <<>>

\* C04, clause by clause
LawCount(e)      == Count(e) = Len(LeavesD(e, <<>>)) /\ Count(e) >= 1
LawSingleton(e)  == Multiple(<<e>>) = e
LawFlatten(e)    == IntoVec(e) = LeavesD(e, <<>>)
LawIdempotent(e) == Flatten(Flatten(e)) = Flatten(e)
LawDisplay(e)    ==
  /\ ~IsMulti(e) => Display(e) = Msg(e) \o (IF e.loc = <<>> THEN "" ELSE " at " \o JoinStr(e.loc, "/"))
  /\ \A l \in Locs : At(e, l).loc = <<l>> \o e.loc
LawToSyn(e)      ==
  LET lv == LeavesD(e, <<>>) s == ToSyn(e) IN
  /\ Len(s) = Count(e)
  /\ \A i \in 1..Len(s) :
       /\ s[i].sp = lv[i].sp                               \* C03: the leaf's own span survives
       /\ s[i].msg = IF lv[i].sp # 0 THEN Msg(lv[i]) ELSE Display(lv[i])  \* unspanned => path rendered
\* C03: flattening keeps each leaf's span
LawSpanKept(e)   ==
  LET lv == LeavesD(e, <<>>) v == IntoVec(e) IN \A i \in 1..Len(v) : v[i].sp = lv[i].sp

\* C03: "a span once attached is never replaced by a coarser one" - no operator that
\* keeps the node can change a span that is set; an unset one is set by with_span only
LawSpanMonotone(e) ==
  /\ \A s \in Spans : WithSpan(e, s).sp = (IF e.sp # 0 THEN e.sp ELSE s)
  /\ \A l \in Locs : At(e, l).sp = e.sp
  /\ ~IsMulti(e) => Flatten(e).sp = e.sp

Laws(e) == /\ WellFormed(e) /\ LawSpanMonotone(e) /\ LawCount(e) /\ LawSingleton(e) /\ LawFlatten(e)
           /\ LawIdempotent(e) /\ LawDisplay(e) /\ LawToSyn(e) /\ LawSpanKept(e)

-----------------------------------------------------------------------------
(* What the harness can observe of a real value through the public API     *)

Obs(e) ==
  [len  |-> Count(e),
   disp |-> Display(e),
   flat |-> LET v == IntoIter(Flatten(e)) IN [i \in 1..Len(v) |-> [d |-> Display(v[i]), sp |-> v[i].sp]],
   syn  |-> ToSyn(e)]

-----------------------------------------------------------------------------
(* The builder machine: a pool of owned values (Rust ownership: bundling   *)
(* and iterating consume their operand, Clone duplicates)                  *)

Init == pool = <<>>

RECURSIVE NodeMaxLoc(_)
NodeMaxLoc(e) ==
  LET here == Len(e.loc) IN
  IF IsMulti(e)
  THEN LET sub == {NodeMaxLoc(e.ch[i]) : i \in 1..Len(e.ch)}
       IN CHOOSE m \in sub \cup {here} : \A x \in sub \cup {here} : m >= x
  ELSE here

TotalLeaves(p) == SumSeq([i \in 1..Len(p) |-> Count(p[i])])

Step(op, post) ==
  /\ pool' = post
  /\ EMIT => Emit("REPLAY", [pre |-> pool, op |-> op, post |-> post,
                             obs |-> [i \in 1..Len(post) |-> Obs(post[i])]])

MkOp(name, i, a, b, s, sel) == [name |-> name, i |-> i, a |-> a, b |-> b, s |-> s, sel |-> sel]

NewLeaf ==
  /\ Len(pool) < MaxPool /\ TotalLeaves(pool) < MaxLeaves
  /\ \E k \in Kinds, n \in Names :
       Step(MkOp("leaf", 0, k, n, 0, <<>>), Append(pool, Leaf(k, n)))

OpAt ==
  \E i \in 1..Len(pool), l \in Locs :
    /\ Len(pool[i].loc) < MaxLoc
    /\ Step(MkOp("at", i, l, "", 0, <<>>), [pool EXCEPT ![i] = At(@, l)])

OpWithSpan ==
  \E i \in 1..Len(pool), s \in Spans :
    Step(MkOp("with_span", i, "", "", s, <<>>), [pool EXCEPT ![i] = WithSpan(@, s)])

\* Error::multiple over an ordered selection of distinct pool members (consumed)
OpBundle ==
  \E n \in 1..MaxArity :
    \E sel \in InjSeqs(1..Len(pool), n) :
      Step(MkOp("multiple", 0, "", "", 0, sel),
           Append(RemoveAll(pool, Range(sel)), Multiple([j \in 1..n |-> pool[sel[j]]])))

OpFlatten ==
  \E i \in 1..Len(pool) :
    Step(MkOp("flatten", i, "", "", 0, <<>>), [pool EXCEPT ![i] = Flatten(@)])

OpClone ==
  \E i \in 1..Len(pool) :
    /\ Len(pool) < MaxPool /\ TotalLeaves(pool) + Count(pool[i]) <= MaxLeaves
    /\ Step(MkOp("clone", i, "", "", 0, <<>>), Append(pool, pool[i]))

\* into_iter: the value is consumed, its one-level children become pool members
OpIntoIter ==
  \E i \in 1..Len(pool) :
    /\ Len(pool) - 1 + Len(IntoIter(pool[i])) <= MaxPool
    /\ Step(MkOp("into_iter", i, "", "", 0, <<>>), RemoveAt(pool, i) \o IntoIter(pool[i]))

OpDrop ==
  \E i \in 1..Len(pool) :
    Step(MkOp("drop", i, "", "", 0, <<>>), RemoveAt(pool, i))

Next == NewLeaf \/ OpAt \/ OpWithSpan \/ OpBundle \/ OpFlatten \/ OpClone \/ OpIntoIter \/ OpDrop

Spec == Init /\ [][Next]_vars

-----------------------------------------------------------------------------
(* Properties                                                              *)

AllLaws == \A i \in 1..Len(pool) : Laws(pool[i])

Bounded == \A i \in 1..Len(pool) : NodeMaxLoc(pool[i]) <= MaxLoc + 2
=============================================================================
