------------------------------ MODULE SynTargets ------------------------------
(***************************************************************************)
(* Syntax-typed targets (core/src/from_meta.rs:292-598, util/callable.rs,  *)
(* ident_string.rs, parse_expr.rs): which hook each target overrides, what *)
(* it accepts bare, and which grammar re-parses a quoted value.            *)
(*                                                                         *)
(* The grammars themselves (paths, expressions, types ...) are syn's: the  *)
(* harness supplies, for every fragment of its pool, the expression        *)
(* variant it is when written bare (`bare`), and the set of grammars that  *)
(* accept its text (`parses`) - the oracle named by the property.  The     *)
(* specification decides everything darling does around it: routing,       *)
(* invisible groups, which text goes to which grammar, what is rejected.   *)
(*                                                                         *)
(* Item: a name-value item whose value is the fragment, written            *)
(*   "bare"    name = <fragment>          (only if it is an expression)    *)
(*   "quoted"  name = "<fragment>"                                         *)
(* each optionally inside `groups` invisible groups.                       *)
(***************************************************************************)
EXTENDS Common, IOUtils

CONSTANTS EMIT

Frags == ndJsonDeserialize(IOEnv.FRAGMENTS)      \* [id, text, bare: expr variant or "", lit: literal kind or "", parses: <<grammar...>>]
NF == Len(Frags)
Parses(f, g) == \E i \in 1..Len(Frags[f].parses) : Frags[f].parses[i] = g

\* ---- the targets ---------------------------------------------------------
\* own: expression variants accepted bare and kept as written ("*" = every expression)
\* grammar: the syn grammar applied to a quoted value ("" = strings are not accepted)
\* lits: literal kinds accepted as such ("*" = every literal)
Row(own, grammar, lits) == [own |-> own, grammar |-> grammar, lits |-> lits]
SynParseTypes == {"Type", "TypeArray", "TypeBareFn", "TypeImplTrait", "TypeInfer", "TypeNever", "TypeParen", "TypePath",
                  "TypePtr", "TypeReference", "TypeSlice", "TypeTraitObject", "TypeTuple", "Visibility", "WhereClause"}
Rows ==
  [t \in {"Expr", "Path", "Ident", "IdentString", "ExprArray", "ExprPath", "ExprRange", "Callable", "WherePreds", "Lit",
          "LitInt", "LitFloat", "LitStr", "LitChar", "LitBool", "LitByteStr"} \cup SynParseTypes |->
    CASE t = "Expr" -> Row({"*"}, "Expr", {})
      [] t = "Path" -> Row({"Path"}, "Path", {})
      [] t \in {"Ident", "IdentString"} -> Row({"Ident"}, "Ident", {})       \* a bare path that is a single plain identifier
      [] t = "ExprArray" -> Row({"Array"}, "ExprArray", {})
      [] t = "ExprPath" -> Row({"Path", "QPath"}, "ExprPath", {})
      [] t = "ExprRange" -> Row({"Range"}, "ExprRange", {})
      [] t = "Callable" -> Row({"Path", "QPath", "Closure"}, "", {})
      [] t = "WherePreds" -> Row({}, "WherePreds", {})
      [] t = "Lit" -> Row({}, "", {"*"})
      [] t = "LitInt" -> Row({}, "", {"int"})
      [] t = "LitFloat" -> Row({}, "", {"float"})
      [] t = "LitStr" -> Row({}, "", {"str"})
      [] t = "LitChar" -> Row({}, "", {"char"})
      [] t = "LitBool" -> Row({}, "", {"bool"})
      [] t = "LitByteStr" -> Row({}, "", {"bytestr"})
      [] OTHER -> Row({}, t, {})]                                            \* from_syn_parse!: strings only
Targets == DOMAIN Rows

\* the expression variant of a bare fragment, refined: a path that is one plain identifier is also "Ident"
IsA(f, variant) ==
  \/ variant = "*" /\ Frags[f].bare # ""
  \/ Frags[f].bare = variant
  \/ variant = "Path" /\ Frags[f].bare = "Ident"

VARIABLES t, f, spelling, groups, out
vars == <<t, f, spelling, groups, out>>

Init ==
  /\ t \in Targets /\ f \in 1..NF /\ spelling \in {"bare", "quoted"} /\ groups \in 0..2 /\ out = ""
  /\ spelling = "bare" => Frags[f].bare # ""                \* only expressions can be written bare
  /\ spelling = "bare" => Frags[f].lit # "str"              \* a bare string literal is the quoted spelling of its contents (explored as such)

\* from_meta -> from_expr (group-transparent) -> own variant | Expr::Lit -> from_value -> string? parse : literal kind
\* result: "as_written" (the bare tokens) | "parsed" (contents re-parsed by the row's grammar) | "rejected"
Convert ==
  /\ out = ""
  /\ LET R == Rows[t] IN
     out' =
       IF spelling = "quoted"
       THEN (IF "str" \in R.lits \/ "*" \in R.lits THEN "as_written"                      \* a string literal kept as a literal
             ELSE IF R.grammar # "" /\ Parses(f, R.grammar) THEN "parsed" ELSE "rejected")
       ELSE IF Frags[f].lit # ""                                                          \* a bare literal that is not a string
            THEN (IF Frags[f].lit \in R.lits \/ "*" \in R.lits THEN "as_written"
                  ELSE IF "*" \in R.own THEN "as_written" ELSE "rejected")
            ELSE IF \E v \in R.own : IsA(f, v) THEN "as_written" ELSE "rejected"
  /\ UNCHANGED <<t, f, spelling, groups>>
Spec == Init /\ [][Convert]_vars

-----------------------------------------------------------------------------
(* Declarative: C13                                                        *)
\* what the target denotes: a syntax class; a value is accepted bare if it is of that class, quoted if
\* its text re-parses by the same grammar; literal targets take the literal itself
Class(tt) ==
  CASE tt = "Expr" -> "Expr" [] tt = "Path" -> "Path" [] tt \in {"Ident", "IdentString"} -> "Ident"
    [] tt = "ExprArray" -> "ExprArray" [] tt = "ExprPath" -> "ExprPath" [] tt = "ExprRange" -> "ExprRange" [] OTHER -> tt

BareOf(tt) ==      \* expression variants that ARE values of the target when written bare
  CASE tt = "Expr" -> {"*"} [] tt = "Path" -> {"Path"} [] tt \in {"Ident", "IdentString"} -> {"Ident"}
    [] tt = "ExprPath" -> {"Path", "QPath"}          \* a path expression may carry a qualified self type, a path may not
    [] tt = "ExprArray" -> {"Array"} [] tt = "ExprRange" -> {"Range"} [] tt = "Callable" -> {"Path", "QPath", "Closure"} [] OTHER -> {}

LitOf(tt) == CASE tt = "Lit" -> {"int", "float", "str", "char", "bool", "bytestr", "byte"} [] tt = "LitInt" -> {"int"} [] tt = "LitFloat" -> {"float"}
               [] tt = "LitStr" -> {"str"} [] tt = "LitChar" -> {"char"} [] tt = "LitBool" -> {"bool"} [] tt = "LitByteStr" -> {"bytestr"} [] OTHER -> {}

Should ==
  IF spelling = "quoted"
  THEN (IF "str" \in LitOf(t) THEN "as_written"
        ELSE IF t \notin {"Callable"} /\ LitOf(t) = {} /\ Parses(f, Class(t)) THEN "parsed" ELSE "rejected")
  ELSE IF Frags[f].lit # "" /\ Frags[f].lit \in LitOf(t) THEN "as_written"
  ELSE IF \E v \in BareOf(t) : IsA(f, v) THEN "as_written"
  ELSE "rejected"

C13_Matrix == out # "" => out = Should

\* where both a bare and a quoted spelling are accepted they denote the same value: the quoted one is the
\* re-parse of the same text by the target's grammar, the bare one the expression as written
EmitDone == (EMIT /\ out # "") =>
  Emit("REPLAY", [t |-> t, frag |-> Frags[f].id, spelling |-> spelling, groups |-> groups, expect |-> Should])
=============================================================================
