-------------------------- MODULE NestedMetaGrammar --------------------------
(***************************************************************************)
(* Splitting attribute tokens into nested meta items:                      *)
(*   NestedMeta::parse_meta_list / NestedMeta::parse                       *)
(*   (core/src/ast/data.rs:423-442) on top of syn's Punctuated, Lit, Meta  *)
(*   and mod-style Path parsers.                                           *)
(*                                                                         *)
(* Token classes (the harness materialises each with several concrete     *)
(* tokens):                                                                *)
(*   L  a literal that is not a boolean (string, integer, negative number, *)
(*      float, char, byte, byte string)                                    *)
(*   T  `true` / `false`                                                   *)
(*   I  an identifier (plain, raw, `_x`)                                   *)
(*   K  a path keyword: self super crate Self                              *)
(*   R  any other reserved word (fn type where ...)                        *)
(*   C2 `::`      C `,`      E `=`                                         *)
(*   G  a delimited group whose content is also a valid expression `(a)`   *)
(*   B  a delimited group of arbitrary tokens `(a b ; =>)`                 *)
(*   V  a non-literal expression that cannot be continued by what follows  *)
(*   P  stray punctuation ( ; ! # )                                        *)
(*                                                                         *)
(* Two definitions over token-class strings:                               *)
(*   Parse      operational: transcribes the parser's peek decisions       *)
(*   Accepts /  declarative: "comma-separated (optional trailing comma,    *)
(*   ItemsOf    possibly empty) literals and meta items"                   *)
(* and TLC checks they agree on every string up to MaxLen.  What follows a *)
(* complete value after `=` other than `,` may continue the expression in  *)
(* syn's grammar (`5 (a)` is a call, `5 = 6` an assignment): such strings  *)
(* are outside both definitions (Unspecified) and are not compared.        *)
(***************************************************************************)
EXTENDS Common

CONSTANTS MaxLen, EMIT

Classes == {"L", "T", "I", "K", "R", "C2", "C", "E", "G", "B", "V", "P"}

VARIABLE ts
vars == <<ts>>
Init == ts = <<>>
Next == Len(ts) < MaxLen /\ \E c \in Classes : ts' = Append(ts, c)
Spec == Init /\ [][Next]_vars

At(s, i) == IF i >= 1 /\ i <= Len(s) THEN s[i] ELSE "$"          \* "$": end of input

-----------------------------------------------------------------------------
(* Operational: a cursor machine.  Result: [ok, items] where an item is    *)
(* [k: "lit" | "meta", form: "" | "word" | "list" | "nv", n: tokens used]  *)

Item(k, form) == [k |-> k, form |-> form]
Fail == [ok |-> FALSE, items |-> <<>>]

IdentLike(c) == c \in {"I", "K", "R", "T"}            \* syn::Ident::peek_any: any identifier or keyword

\* Path::parse_mod_style from position i: <<next position>> or <<>> (error)
RECURSIVE PathFrom(_, _)
PathFrom(s, i) ==
  IF At(s, i) \in {"I", "K"}                            \* a segment: identifier or path keyword
  THEN IF At(s, i + 1) = "C2" THEN PathFrom(s, i + 2) ELSE <<i + 1>>
  ELSE <<>>

\* a value after `=` (syn's parse_meta_name_value_after_path): <<next position>> or <<>>
ValueFrom(s, i) ==
  IF At(s, i) \in {"L", "T", "V", "G"} THEN <<i + 1>>
  ELSE IF At(s, i) \in {"I", "K"} \/ (At(s, i) = "C2" /\ At(s, i + 1) \in {"I", "K"})
       THEN PathFrom(s, IF At(s, i) = "C2" THEN i + 1 ELSE i)      \* a path expression
  ELSE <<>>

\* NestedMeta::parse at position i: [ok, item, next]
ParseItem(s, i) ==
  LET c == At(s, i) IN
  IF c = "L" \/ (c = "T" /\ At(s, i + 1) # "E")            \* peek(Lit) && !(peek(LitBool) && peek2(=))
  THEN [ok |-> TRUE, item |-> Item("lit", ""), next |-> i + 1]
  ELSE IF IdentLike(c) \/ (c = "C2" /\ IdentLike(At(s, i + 1)))   \* peek(::) && peek3(ident): `::` is two punct tokens
  THEN LET p == PathFrom(s, IF c = "C2" THEN i + 1 ELSE i) IN
       IF p = <<>> THEN [ok |-> FALSE, item |-> Item("", ""), next |-> i]
       ELSE LET j == p[1] IN
         IF At(s, j) \in {"G", "B"} THEN [ok |-> TRUE, item |-> Item("meta", "list"), next |-> j + 1]
         ELSE IF At(s, j) = "E"
              THEN LET v == ValueFrom(s, j + 1) IN
                   IF v = <<>> THEN [ok |-> FALSE, item |-> Item("", ""), next |-> j]
                   ELSE [ok |-> TRUE, item |-> Item("meta", "nv"), next |-> v[1]]
              ELSE [ok |-> TRUE, item |-> Item("meta", "word"), next |-> j]
  ELSE [ok |-> FALSE, item |-> Item("", ""), next |-> i]

\* Punctuated::parse_terminated
RECURSIVE ParseFrom(_, _, _)
ParseFrom(s, i, acc) ==
  IF i > Len(s) THEN [ok |-> TRUE, items |-> acc]
  ELSE LET r == ParseItem(s, i) IN
       IF ~r.ok THEN Fail
       ELSE IF r.next > Len(s) THEN [ok |-> TRUE, items |-> Append(acc, r.item)]
       ELSE IF At(s, r.next) = "C" THEN ParseFrom(s, r.next + 1, Append(acc, r.item))
       ELSE Fail
Parse(s) == ParseFrom(s, 1, <<>>)

-----------------------------------------------------------------------------
(* Declarative: split at commas, classify each chunk                       *)

RECURSIVE SplitAt(_, _, _)
SplitAt(s, i, cur) ==      \* chunks between top-level commas
  IF i > Len(s) THEN <<cur>>
  ELSE IF s[i] = "C" THEN <<cur>> \o SplitAt(s, i + 1, <<>>)
  ELSE SplitAt(s, i + 1, Append(cur, s[i]))

\* a path: [::] seg (:: seg)*, seg an identifier or a path keyword
RECURSIVE IsSegs(_)
IsSegs(c) == /\ c # <<>> /\ c[1] \in {"I", "K"}
             /\ (Len(c) = 1 \/ (Len(c) >= 3 /\ c[2] = "C2" /\ IsSegs(SubSeq(c, 3, Len(c)))))
IsPath(c) == IsSegs(c) \/ (c # <<>> /\ c[1] = "C2" /\ IsSegs(Tail(c)))

IsValue(c) == (Len(c) = 1 /\ c[1] \in {"L", "T", "V", "G"}) \/ IsPath(c)

ChunkKind(c) ==
  IF Len(c) = 1 /\ c[1] \in {"L", "T"} THEN <<Item("lit", "")>>
  ELSE IF IsPath(c) THEN <<Item("meta", "word")>>
  ELSE IF Len(c) >= 2 /\ c[Len(c)] \in {"G", "B"} /\ IsPath(SubSeq(c, 1, Len(c) - 1)) THEN <<Item("meta", "list")>>
  ELSE IF \E k \in 2..(Len(c) - 1) : c[k] = "E" /\ IsPath(SubSeq(c, 1, k - 1)) /\ IsValue(SubSeq(c, k + 1, Len(c)))
       THEN <<Item("meta", "nv")>>
  ELSE <<>>

Chunks(s) ==   \* the optional trailing comma leaves an empty last chunk, which is dropped
  LET ch == SplitAt(s, 1, <<>>) IN
  IF s = <<>> THEN <<>>
  ELSE IF ch[Len(ch)] = <<>> THEN SubSeq(ch, 1, Len(ch) - 1) ELSE ch

Accepts(s) == \A k \in 1..Len(Chunks(s)) : ChunkKind(Chunks(s)[k]) # <<>>
ItemsOf(s) == [k \in 1..Len(Chunks(s)) |-> ChunkKind(Chunks(s)[k])[1]]

\* a complete name-value item followed by anything but a comma: syn's expression grammar decides
Unspecified(s) ==
  \/ \E i \in 1..Len(s) : s[i] = "V" /\ At(s, i - 1) # "E"      \* V is only ever written as a value
  \/ \E i \in 1..Len(s) : \E j \in (i + 1)..Len(s) :
     /\ s[i] = "E" /\ \A m \in i..j : s[m] # "C"
     /\ IsValue(SubSeq(s, i + 1, j)) /\ j < Len(s) /\ s[j + 1] # "C"
     /\ ~(s[j] \in {"I", "K"} /\ s[j + 1] = "C2")      \* ... unless the path simply continues

C15_Agree ==
  ~Unspecified(ts) =>
     /\ Parse(ts).ok = Accepts(ts)
     /\ Parse(ts).ok => Parse(ts).items = ItemsOf(ts)       \* count, order, classification

EmitAll == EMIT => Emit("REPLAY", [ts |-> ts, unspecified |-> Unspecified(ts),
                                   expect |-> [ok |-> Accepts(ts), items |-> IF Accepts(ts) THEN ItemsOf(ts) ELSE <<>>]])
=============================================================================
