----------------------------- MODULE MetaRouting -----------------------------
(***************************************************************************)
(* The default-method dispatch of the FromMeta trait                       *)
(* (core/src/from_meta.rs:54-156): a call-stack machine with one action    *)
(* per trait method.  An implementer overrides a subset S of the hooks     *)
(*   word list bool string char value(=from_value) expr(=from_expr)        *)
(* and each item is routed, by its form alone, to exactly one hook or to   *)
(* the documented default rejection.  Every frame attaches its span on the *)
(* way out (first writer wins).                                            *)
(*                                                                         *)
(* Item: [pos, form, lit, groups]                                          *)
(*   pos    "meta" (a meta item) | "nested_lit" (a bare literal in a list) *)
(*   form   "word" | "list" | "junk" (list whose tokens are not a meta     *)
(*          list) | "nv"                                                   *)
(*   lit    for nv / nested_lit: "bool" "str" "char" "int" "float"         *)
(*          "bytestr" (literals) | "path" "binary" "paren" (expressions)   *)
(*   groups number of invisible groups around the value (0..2)             *)
(* Probe mode: what an overridden hook returns - "ok", "err" (an error     *)
(* without span) or "err_spanned" (an error carrying its own span).        *)
(***************************************************************************)
EXTENDS Common, SequencesExt

CONSTANTS EMIT

Hooks == {"word", "list", "bool", "string", "char", "value", "expr"}
Lits == {"bool", "str", "char", "int", "float", "bytestr"}
Exprs == {"path", "binary", "paren"}        \* paren: a literal or an expression inside written parentheses - an expression, not a literal
Items ==
  {[pos |-> "meta", form |-> f, lit |-> "", groups |-> 0] : f \in {"word", "list", "junk"}}
  \cup {[pos |-> "meta", form |-> "nv", lit |-> l, groups |-> g] : l \in Lits \cup Exprs, g \in 0..2}
  \cup {[pos |-> "nested_lit", form |-> "", lit |-> l, groups |-> 0] : l \in Lits}
Modes == {"ok", "err", "err_spanned"}

VARIABLES S, item, mode, pc, depth, stack, ret
vars == <<S, item, mode, pc, depth, stack, ret>>

\* a result: [hit: the hook reached ("" if none), ok, kind: error class, span: who spanned it]
NoRet == [hit |-> "", ok |-> TRUE, kind |-> "", span |-> "none"]
HookResult(h) ==
  CASE mode = "ok" -> [hit |-> h, ok |-> TRUE, kind |-> "", span |-> "none"]
    [] mode = "err" -> [hit |-> h, ok |-> FALSE, kind |-> "probe", span |-> "none"]
    [] mode = "err_spanned" -> [hit |-> h, ok |-> FALSE, kind |-> "probe", span |-> "own"]
Reject(kind, span) == [hit |-> "", ok |-> FALSE, kind |-> kind, span |-> span]

\* `.map_err(|e| e.with_span(x))`: only if the error has no span yet
Spanned(r, who) == IF ~r.ok /\ r.span = "none" THEN [r EXCEPT !.span = who] ELSE r

Init ==
  /\ S \in SUBSET Hooks /\ item \in Items /\ mode \in Modes
  /\ pc = (IF item.pos = "nested_lit" THEN "nested" ELSE "meta")
  /\ depth = 0 /\ stack = <<>> /\ ret = NoRet

Call(p, frame) == pc' = p /\ stack' = Append(stack, frame) /\ UNCHANGED <<S, item, mode, depth, ret>>
Return(r) == pc' = "ret" /\ ret' = r /\ UNCHANGED <<S, item, mode, depth, stack>>

\* from_nested_meta (from_meta.rs:54-60), literal branch
FromNestedMeta == pc = "nested" /\ Call("value", "item")

\* from_meta (from_meta.rs:70-80)
FromMeta ==
  /\ pc = "meta"
  /\ CASE item.form = "word" -> Call("word", "item")
       [] item.form = "list" -> Call("list", "item")
       [] item.form = "junk" -> Return(Reject("syntax", "inside"))      \* parse_meta_list(..)? returns before the wrapper
       [] item.form = "nv"   -> Call("expr", "item")

FromWord == pc = "word" /\ Return(IF "word" \in S THEN HookResult("word") ELSE Reject("format:word", "none"))
FromList == pc = "list" /\ Return(IF "list" \in S THEN HookResult("list") ELSE Reject("format:list", "none"))

\* from_expr (from_meta.rs:124-138)
FromExpr ==
  /\ pc = "expr"
  /\ IF "expr" \in S THEN Return(HookResult("expr"))
     ELSE IF depth < item.groups
          THEN /\ pc' = "expr" /\ depth' = depth + 1 /\ stack' = Append(stack, "expr")   \* Expr::Group: transparent
               /\ UNCHANGED <<S, item, mode, ret>>
          ELSE IF item.lit \in Lits THEN Call("value", "expr")
          ELSE Return(Spanned(Reject("exprtype:" \o item.lit, "expr"), "expr"))          \* unexpected_expr_type: spanned by its constructor

\* from_value (from_meta.rs:113-121)
FromValue ==
  /\ pc = "value"
  /\ IF "value" \in S THEN Return(HookResult("value"))
     ELSE CASE item.lit = "bool" -> Call("bool", "lit")
            [] item.lit = "str"  -> Call("string", "lit")
            [] item.lit = "char" -> Call("char", "lit")
            [] OTHER -> Return(Reject("type:" \o item.lit, "lit"))                        \* unexpected_lit_type: spanned lit

FromBool   == pc = "bool"   /\ Return(IF "bool" \in S THEN HookResult("bool") ELSE Reject("type:bool", "none"))
FromString == pc = "string" /\ Return(IF "string" \in S THEN HookResult("string") ELSE Reject("type:string", "none"))
FromChar   == pc = "char"   /\ Return(IF "char" \in S THEN HookResult("char") ELSE Reject("type:char", "none"))

\* unwinding: each frame's map_err(with_span(..))
Unwind ==
  /\ pc = "ret" /\ stack # <<>>
  /\ ret' = Spanned(ret, stack[Len(stack)])
  /\ stack' = SubSeq(stack, 1, Len(stack) - 1)
  /\ UNCHANGED <<S, item, mode, pc, depth>>

Next == FromNestedMeta \/ FromMeta \/ FromWord \/ FromList \/ FromExpr \/ FromValue \/ FromBool \/ FromString \/ FromChar \/ Unwind
Spec == Init /\ [][Next]_vars
Done == pc = "ret" /\ stack = <<>>

-----------------------------------------------------------------------------
(* Declarative: routing by form alone                                      *)

LitHook(l) == CASE l = "bool" -> "bool" [] l = "str" -> "string" [] l = "char" -> "char" [] OTHER -> ""

\* the one hook responsible for this item, "" if the form has none
HookFor(T, it) ==
  IF it.pos = "nested_lit" THEN (IF "value" \in T THEN "value" ELSE LitHook(it.lit))
  ELSE CASE it.form = "word" -> "word"
         [] it.form = "list" -> "list"
         [] it.form = "junk" -> ""
         [] it.form = "nv"   -> IF "expr" \in T THEN "expr"
                                ELSE IF it.lit \in Exprs THEN ""
                                ELSE IF "value" \in T THEN "value" ELSE LitHook(it.lit)

C15_Routing ==
  Done =>
    LET h == HookFor(S, item) IN
    /\ (h # "" /\ h \in S) => ret.hit = h                     \* routed to exactly that hook
    /\ (h = "" \/ h \notin S) => (ret.hit = "" /\ ~ret.ok)    \* a hook left at its default rejects
    /\ ~ret.ok => ret.span # "none"                           \* an error always comes back spanned
    /\ (~ret.ok /\ mode = "err_spanned" /\ ret.hit # "") => ret.span = "own"   \* ... but never re-spanned

EmitDone == (EMIT /\ Done) =>
  Emit("REPLAY", [S |-> SetToSeq(S), item |-> item, mode |-> mode,
                  expect |-> [hook |-> IF HookFor(S, item) \in S THEN HookFor(S, item) ELSE "", ok |-> ret.ok],
                  model |-> ret])
=============================================================================
