-------------------------------- MODULE Maps --------------------------------
(***************************************************************************)
(* Keyed collections (core/src/from_meta.rs:711-801, the `map!` macro):    *)
(* converting a list of nested meta items into HashMap / BTreeMap.         *)
(*                                                                         *)
(* One action per iteration of the loop (`Item`), one for `finish_with`    *)
(* (`Finish`).  The input is drawn item by item, so TLC explores the tree  *)
(* of all item lists up to MaxLen.                                         *)
(*                                                                         *)
(* An item is [k, key, val]:  k = "lit" (a bare literal) or "meta";        *)
(* key = [lead, segs] (a path: leading `::`?, segments);                   *)
(* val = "good" | "bad" (does the element type accept the item's value -   *)
(* the element type's own business, C11-C13) .                             *)
(* KeyKind: how a path becomes a key - "string" (segments joined by `::`,  *)
(* leading colons ignored), "ident" (a single plain segment, else the key  *)
(* is rejected), "path" (the path itself).                                 *)
(***************************************************************************)
EXTENDS ErrorOps

CONSTANTS KeyKinds, Keys, MaxLen, EMIT

VARIABLES kind, items, seen, map, errs, done
vars == <<kind, items, seen, map, errs, done>>

KeyText(key) == (IF key.lead THEN "::" ELSE "") \o JoinStr(key.segs, "::")     \* as written
PathToString(key) == JoinStr(key.segs, "::")                                    \* util::path_to_string

\* KeyFromPath::from_path (from_meta.rs:673-708): <<converted key>> or <<>> if rejected
KeyOf(kk, key) ==
  CASE kk = "string" -> <<PathToString(key)>>
    [] kk = "ident"  -> IF Len(key.segs) = 1 /\ ~key.lead THEN <<key.segs[1]>> ELSE <<>>
    [] kk = "path"   -> <<KeyText(key)>>            \* syn::Path equality: leading colon and segments
\* to_display: what a duplicate-key error names
KeyDisplay(kk, key) == IF kk = "path" THEN PathToString(key) ELSE KeyOf(kk, key)[1]

ItemSp(j)  == SpanAt(<<1, j>>, "item")
NameSp(j)  == SpanAt(<<1, j>>, "name")
ValueSp(j) == SpanAt(<<1, j>>, "value")

\* the element type's error for a rejected value: whatever it is, it arrives spanned inside the
\* item and is then located under the item's path (`.at_path(&path)`, from_meta.rs:739)
BadValue(it, j) == At(WithSpan(Leaf("rejected", ""), ValueSp(j)), PathToString(it.key))

Init == kind \in KeyKinds /\ items = <<>> /\ seen = {} /\ map = <<>> /\ errs = <<>> /\ done = FALSE

Alphabet == {[k |-> "lit", key |-> [lead |-> FALSE, segs |-> <<>>], val |-> ""]}
            \cup {[k |-> "meta", key |-> key, val |-> v] : key \in Keys, v \in {"good", "bad"}}

\* one iteration of the loop (from_meta.rs:764-796)
StepMap(kk, s, it, j) ==
  IF it.k = "lit" THEN [s EXCEPT !.errs = Append(@, Leaf("format", "expression"))]
  ELSE LET ko == KeyOf(kk, it.key) IN
    IF ko = <<>> THEN
      \* bad key: report it, and still surface the value's error
      LET s1 == [s EXCEPT !.errs = Append(@, WithSpan(Leaf("custom", "bad-key"), NameSp(j)))]
      IN IF it.val = "bad" THEN [s1 EXCEPT !.errs = Append(@, BadValue(it, j))] ELSE s1
    ELSE
      LET key == ko[1]
          dup == key \in s.seen
          s1 == IF dup THEN [s EXCEPT !.errs = Append(@, WithSpan(Leaf("dup", KeyDisplay(kk, it.key)), NameSp(j)))] ELSE s
          s2 == IF it.val = "bad" THEN [s1 EXCEPT !.errs = Append(@, BadValue(it, j))]
                ELSE IF dup THEN s1
                ELSE [s1 EXCEPT !.map = Append(@, <<key, j>>)]     \* value: "the element type's value for item j"
      IN [s2 EXCEPT !.seen = @ \cup {key}]

St == [seen |-> seen, map |-> map, errs |-> errs]

Item ==
  /\ ~done /\ Len(items) < MaxLen
  /\ \E it \in Alphabet :
       LET s == StepMap(kind, St, it, Len(items) + 1) IN
       /\ items' = Append(items, it)
       /\ seen' = s.seen /\ map' = s.map /\ errs' = s.errs
  /\ UNCHANGED <<kind, done>>

Finish == ~done /\ done' = TRUE /\ UNCHANGED <<kind, items, seen, map, errs>>

Next == Item \/ Finish
Spec == Init /\ [][Next]_vars

\* finish_with (from_meta.rs:798)
ResultOk == errs = <<>>
ResultErr == Multiple(errs)

-----------------------------------------------------------------------------
(* Declarative reading of C14                                              *)

Named(j)   == items[j].k = "meta"
KeyOk(j)   == Named(j) /\ KeyOf(kind, items[j].key) # <<>>
KeyAt(j)   == KeyOf(kind, items[j].key)[1]
Repeat(j)  == KeyOk(j) /\ \E i \in 1..(j-1) : KeyOk(i) /\ KeyAt(i) = KeyAt(j)
N == Len(items)

ShouldSucceed ==
  /\ \A j \in 1..N : KeyOk(j) /\ items[j].val = "good"
  /\ \A i, j \in 1..N : i # j => KeyAt(i) # KeyAt(j)

\* one mistake per literal item, per repeated occurrence, per unconvertible key, per unconvertible value
M(cls, n, loc, pos) == [cls |-> cls, n |-> n, loc |-> loc, pos |-> pos, eq |-> FALSE]
MistakesAt(j) ==
  IF ~Named(j) THEN <<M("other", "", <<>>, <<1, j>>)>>
  ELSE (IF Repeat(j) THEN <<M("dup", KeyDisplay(kind, items[j].key), <<>>, <<1, j>>)>> ELSE <<>>)
       \o (IF ~KeyOk(j) THEN <<M("other", "", <<>>, <<1, j>>)>> ELSE <<>>)
       \o (IF items[j].val = "bad" THEN <<M("other", "", <<PathToString(items[j].key)>>, <<1, j>>)>> ELSE <<>>)
Mistakes == ConcatAll([j \in 1..N |-> MistakesAt(j)])

ClassOf(e) == IF e.k = "dup" THEN <<"dup", e.n>> ELSE <<"other", "">>
LeafKey(e) == <<ClassOf(e)[1], ClassOf(e)[2], e.loc>>
MKey(m) == <<m.cls, m.n, m.loc>>
CountK(seq, key, K(_)) == Cardinality({i \in 1..Len(seq) : K(seq[i]) = key})

C14_Verdict == done => (ResultOk <=> ShouldSucceed)
C14_Entries == (done /\ ResultOk) =>
                  /\ Len(map) = N                                        \* one entry per item
                  /\ \A j \in 1..N : map[j] = <<KeyAt(j), j>>             \* holding that item's value
C14_Leaves  == (done /\ ~ResultOk) =>
                  LET lv == IntoVec(ResultErr) ms == Mistakes IN
                  /\ Len(lv) = Len(ms)
                  /\ \A i \in 1..Len(ms) : CountK(lv, MKey(ms[i]), LeafKey) = CountK(ms, MKey(ms[i]), MKey)

LeafRec(e) == [k |-> e.k, n |-> e.n, loc |-> e.loc, sp |-> e.sp, alt |-> e.alt]
EmitDone ==
  (EMIT /\ done) =>
    Emit("REPLAY", [kind |-> kind,
                    items |-> [j \in 1..N |-> [k |-> items[j].k, key |-> KeyText(items[j].key), val |-> items[j].val]],
                    expect |-> [ok |-> ResultOk,
                                entries |-> [j \in 1..Len(map) |-> [key |-> map[j][1], item |-> map[j][2]]],
                                leaves |-> IF ResultOk THEN <<>> ELSE LET lv == IntoVec(ResultErr) IN [i \in 1..Len(lv) |-> LeafRec(lv[i])],
                                clean |-> ShouldSucceed,
                                mistakes |-> Mistakes]])
=============================================================================
