SPECIFICATION Spec
CONSTANTS
  ErrIds = {"e1", "e2", "b3"}
  Vals = {1, 2}
  MaxOps = 4
  MaxExtend = 2
  EMIT = TRUE
INVARIANTS Clauses Ownership EmitDone
CHECK_DEADLOCK FALSE
