-------------------------------- MODULE Body --------------------------------
(***************************************************************************)
(* Body conversion of element-level receivers:                             *)
(*   ast::Data::try_from     (core/src/ast/data.rs:124-142)                *)
(*   ast::Fields::try_from   (core/src/ast/data.rs:263-303)                *)
(*   the `fields` member of a FromVariant receiver (from_variant_impl.rs)  *)
(* and the pass-through of magic fields (codegen/from_*_impl.rs).          *)
(*                                                                         *)
(* A body is [kind, style, ms]: kind "struct" | "enum" | "union";          *)
(* ms = members.  A struct member is a field [name, bad]; an enum member   *)
(* is a variant [name, style, bad, fs (its fields), disc].  `bad` = the    *)
(* member-level receiver rejects this member's attributes (the harness     *)
(* provokes it by omitting a required field-level attribute).              *)
(*                                                                         *)
(* One action per member (`Convert`), then `Finish`: the code threads one  *)
(* accumulator over all fields / all variants.                             *)
(***************************************************************************)
EXTENDS ErrorOps

CONSTANTS MaxFields, MaxVariants, MaxVFields, EMIT

FieldNames == <<"fa", "r#type", "fc", "r#fn", "fe", "ff">>          \* raw identifiers are names like any other
VarNames   == <<"Va", "Vb", "Vc", "Vd", "Ve", "Vf">>

Fld(name, bad) == [name |-> name, style |-> "field", bad |-> bad, fs |-> <<>>, disc |-> FALSE]

\* field lists: named ("named") or positional ("tuple") with n fields, every bad-flag assignment
FieldLists(style, n) ==
  {[i \in 1..n |-> Fld(IF style = "named" THEN FieldNames[i] ELSE "", b[i])] : b \in [1..n -> BOOLEAN]}

\* variants of every style, with or without an explicit discriminant, braced / parenthesised ones also with no field at all
VariantsOf(j) ==
  {[name |-> VarNames[j], style |-> "unit", bad |-> b, fs |-> <<>>, disc |-> d] : b, d \in BOOLEAN}
  \cup UNION {{[name |-> VarNames[j], style |-> st, bad |-> b, fs |-> fl, disc |-> d] : b \in BOOLEAN, fl \in FieldLists(st, n), d \in (IF n = 1 THEN BOOLEAN ELSE {FALSE})}
              : st \in {"named", "tuple"}, n \in 0..MaxVFields}

RECURSIVE VariantSeqs(_)
VariantSeqs(n) == IF n = 0 THEN {<<>>} ELSE {Append(p, v) : p \in VariantSeqs(n - 1), v \in VariantsOf(n)}

Bodies ==
  {[kind |-> "struct", style |-> "unit", ms |-> <<>>]}
  \cup UNION {{[kind |-> "struct", style |-> st, ms |-> fl] : fl \in FieldLists(st, n)} : st \in {"named", "tuple"}, n \in 0..MaxFields}
  \cup UNION {{[kind |-> "enum", style |-> "", ms |-> vs] : vs \in VariantSeqs(n)} : n \in 0..MaxVariants}
  \cup {[kind |-> "union", style |-> "", ms |-> <<>>]}

VARIABLES body, i, out, errs, done
vars == <<body, i, out, errs, done>>

\* the error a member-level receiver returns for a member lacking its required attribute
NeedErr == Leaf("missing", "need")

\* Fields::try_from over one field list: the errors, in order (named fields located by their name)
FieldErrs(style, fl) ==
  ConcatAll([k \in 1..Len(fl) |->
     IF fl[k].bad THEN <<IF style = "named" THEN At(NeedErr, fl[k].name) ELSE NeedErr>> ELSE <<>>])

\* FromVariant::from_variant of the harness's variant receiver: attribute layer first (ErrorCheck),
\* then `fields: Fields::try_from(&v.fields)?`
VariantResult(v) ==
  IF v.bad THEN <<NeedErr>>
  ELSE LET fe == FieldErrs(v.style, v.fs) IN IF fe = <<>> THEN <<>> ELSE <<Multiple(fe)>>

Init == body \in Bodies /\ i = 1 /\ out = <<>> /\ errs = <<>> /\ done = FALSE

\* one iteration of the filter_map(errors.handle(..)) loop
Convert ==
  /\ ~done /\ body.kind # "union" /\ i <= Len(body.ms)
  /\ LET m == body.ms[i]
         e == IF body.kind = "struct" THEN FieldErrs(body.style, <<m>>) ELSE VariantResult(m)
     IN /\ errs' = errs \o e
        /\ out' = IF e = <<>> THEN Append(out, i) ELSE out
  /\ i' = i + 1 /\ UNCHANGED <<body, done>>

Finish ==
  /\ ~done /\ (body.kind = "union" \/ i > Len(body.ms))
  /\ done' = TRUE /\ UNCHANGED <<body, i, out, errs>>

Next == Convert \/ Finish
Spec == Init /\ [][Next]_vars

ResultOk == body.kind # "union" /\ errs = <<>>
ResultLeaves == IF body.kind = "union" THEN <<Leaf("custom", "union")>> ELSE IntoVec(Multiple(errs))

-----------------------------------------------------------------------------
(* Declarative reading of C16                                              *)

FieldFails(f) == f.bad
VariantFails(v) == v.bad \/ \E k \in 1..Len(v.fs) : v.fs[k].bad
MemberFails(m) == IF body.kind = "struct" THEN FieldFails(m) ELSE VariantFails(m)

ShouldSucceed == body.kind # "union" /\ \A k \in 1..Len(body.ms) : ~MemberFails(body.ms[k])

\* every failure reported: one leaf per failing field; a variant rejected at its own attributes is one
\* failure, otherwise one per failing field of it; named fields are located by their name
Failures ==
  IF body.kind = "union" THEN <<<<>>>>
  ELSE ConcatAll([k \in 1..Len(body.ms) |->
     LET m == body.ms[k] IN
     IF body.kind = "struct"
     THEN (IF m.bad THEN <<IF body.style = "named" THEN <<m.name>> ELSE <<>>>> ELSE <<>>)
     ELSE IF m.bad THEN <<<<>>>>
          ELSE ConcatAll([j \in 1..Len(m.fs) |-> IF m.fs[j].bad THEN <<IF m.style = "named" THEN <<m.fs[j].name>> ELSE <<>>>> ELSE <<>>])])

C16_Verdict == done => (ResultOk <=> ShouldSucceed)
C16_Entries == (done /\ ResultOk) => out = [k \in 1..Len(body.ms) |-> k]       \* one entry per member, source order
C16_AllReported ==
  (done /\ ~ResultOk) =>
     LET lv == ResultLeaves f == Failures IN
     /\ Len(lv) = Len(f)
     /\ \A p \in Range(f) : Cardinality({k \in 1..Len(lv) : lv[k].loc = p}) = Cardinality({k \in 1..Len(f) : f[k] = p})

EmitDone == (EMIT /\ done) =>
  Emit("REPLAY", [body |-> body,
                  expect |-> [ok |-> ShouldSucceed, entries |-> Len(body.ms), failures |-> Failures],
                  model |-> [ok |-> ResultOk, leaves |-> IF ResultOk THEN <<>> ELSE [k \in 1..Len(ResultLeaves) |-> ResultLeaves[k].loc]]])
=============================================================================
