------------------------------ MODULE Generics ------------------------------
(***************************************************************************)
(* ast::Generics<P, W> / ast::GenericParam<T, L, C> / FromGenerics /        *)
(* FromGenericParam / the `generics` magic field (ast/generics.rs,          *)
(* from_generics.rs, from_generic_param.rs, codegen/from_derive_impl.rs).   *)
(*                                                                         *)
(* A declaration's generic parameters are drawn one at a time: type         *)
(* parameters whose own attributes convert (with or without an attribute),  *)
(* type parameters whose attributes carry one or two mistakes, lifetimes    *)
(* and const parameters; then an optional where clause.  The parameter      *)
(* receiver P is one of                                                     *)
(*   "derived"  GenericParam<TP>, TP a derived FromTypeParam receiver       *)
(*   "ident"    GenericParam<syn::Ident>                                    *)
(*   "syn"      syn::GenericParam (a clone)                                 *)
(* and the whole is reached either directly (FromGenerics::from_generics)   *)
(* or as the `generics` member of a derived FromDeriveInput receiver whose  *)
(* own attribute may carry a further mistake.                               *)
(*                                                                         *)
(* The machine is the code: `params.iter().map(..).collect::<Result<_>>()`  *)
(* stops at the first parameter that fails.  The magic member is filled     *)
(* with `from_generics(..)?` AFTER the attribute layer's errors have been   *)
(* checked (from_derive_impl.rs:87-103): a mistake in the receiver's own    *)
(* attribute returns before the parameters are looked at - the body layer   *)
(* is reported only when the attribute layer is clean (cf. C02).            *)
(***************************************************************************)
EXTENDS Common

CONSTANTS MaxParams, EMIT

Kinds == {"tok", "tplain", "tbad", "tbad2", "lt", "cn"}
Receivers == {"derived", "ident", "syn"}
IsType(k) == k \in {"tok", "tplain", "tbad", "tbad2"}
\* mistakes in the parameter's own attributes, seen only by the derived receiver
Mistakes(r, k) == IF r # "derived" THEN 0 ELSE CASE k = "tbad" -> 1 [] k = "tbad2" -> 2 [] OTHER -> 0
OutKind(k) == IF IsType(k) THEN "type" ELSE IF k = "lt" THEN "lifetime" ELSE "const"

VARIABLES recv, via, params, wh, other, acc, done
vars == <<recv, via, params, wh, other, acc, done>>

\* "rmember": the member is declared as darling::Result<Generics<..>> - it holds the outcome, the receiver never fails because of it
Init == /\ recv \in Receivers /\ via \in {"direct", "member", "rmember"}
        /\ wh \in {"none", "preds", "empty"}      \* no where clause, one with a predicate, the bare keyword
        /\ other \in (IF via # "direct" THEN BOOLEAN ELSE {FALSE})     \* a mistake in the receiver's own attribute
        /\ params = <<>> /\ done = FALSE
        /\ acc = [ok |-> TRUE, out |-> <<>>, nerr |-> 0, at |-> 0]

Push(k) == /\ ~done /\ Len(params) < MaxParams
           /\ params' = Append(params, k)
           /\ acc' = IF ~acc.ok THEN acc
                     ELSE IF Mistakes(recv, k) = 0 THEN [acc EXCEPT !.out = Append(@, OutKind(k))]
                     ELSE [ok |-> FALSE, out |-> <<>>, nerr |-> Mistakes(recv, k), at |-> Len(params) + 1]
           /\ UNCHANGED <<recv, via, wh, other, done>>
Finish == /\ ~done /\ done' = TRUE /\ UNCHANGED <<recv, via, params, wh, other, acc>>
Next == (\E k \in Kinds : Push(k)) \/ Finish
Spec == Init /\ [][Next]_vars

\* the receiver as a whole: the attribute layer first, the parameters only when it is clean
TotalErrors == IF other THEN 1 ELSE IF via = "rmember" THEN 0 ELSE acc.nerr

BadIdx == {i \in 1..Len(params) : Mistakes(recv, params[i]) > 0}
Min(S) == CHOOSE x \in S : \A y \in S : x <= y
TypeIdx == SelectSeq([i \in 1..Len(params) |-> i], LAMBDA i : IsType(params[i]))

\* parameters are converted in order, one to one, and nothing but a type parameter's own attributes can fail
Gen_OneToOne ==
  done => IF BadIdx = {} THEN acc.ok /\ Len(acc.out) = Len(params) /\ \A i \in 1..Len(params) : acc.out[i] = OutKind(params[i])
          ELSE ~acc.ok /\ acc.at = Min(BadIdx) /\ acc.nerr = Mistakes(recv, params[acc.at])
\* type_params() is the subsequence of type parameters
Gen_TypeParams == (done /\ acc.ok) => Len(TypeIdx) = Len(SelectSeq(acc.out, LAMBDA o : o = "type"))
\* a receiver that looks at nothing it could reject never fails
Gen_Infallible == (done /\ recv # "derived") => acc.ok

EmitDone == (done /\ EMIT) =>
  Emit("REPLAY", [recv |-> recv, via |-> via, params |-> params, wh |-> wh, other |-> other,
                  expect |-> [ok |-> (BadIdx = {} \/ via = "rmember") /\ ~other, inner_ok |-> BadIdx = {}, kinds |-> [i \in 1..Len(params) |-> OutKind(params[i])], types |-> TypeIdx,
                              bad |-> SelectSeq([i \in 1..Len(params) |-> i], LAMBDA i : Mistakes(recv, params[i]) > 0), other |-> other],
                  model |-> [ok |-> (acc.ok \/ via = "rmember") /\ ~other, nerr |-> TotalErrors, at |-> IF other THEN 0 ELSE acc.at]])
=============================================================================
