--------------------------- MODULE MC_ErrorAlgebra ---------------------------
EXTENDS ErrorAlgebra
CONSTANT MaxOps
DepthBound == TLCGet("level") <= MaxOps
=============================================================================
