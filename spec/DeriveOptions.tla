---------------------------- MODULE DeriveOptions ----------------------------
(***************************************************************************)
(* Derive-time option parsing and validation: what each of the six derives *)
(* does with a receiver DECLARATION before it generates any code           *)
(*   options/mod.rs        parse_attributes / parse_attr / parse_body      *)
(*   options/core.rs       container options, flatten count                *)
(*   options/outer_from.rs attributes / forward_attrs / from_ident, attrs  *)
(*   options/from_meta.rs  from_word / from_none, word variants            *)
(*   options/from_derive.rs, from_variant.rs   supports(..)                *)
(*   options/from_attributes.rs                attributes required         *)
(*   options/input_field.rs, input_variant.rs  field / variant options     *)
(*   options/shape.rs      shape words                                     *)
(*                                                                         *)
(* A declaration is built option item by option item (so TLC explores the  *)
(* tree of declarations); the operational machine consumes each item as it *)
(* is appended, exactly in the order the code does, with the same          *)
(* accumulate / early-return structure; `Finish` runs validate_body and    *)
(* decides Impl vs Diagnostics.                                            *)
(*                                                                         *)
(* Option item: [name, form]; form is how its value is written:            *)
(*   "word"  name            "true" / "false"  name = true / false         *)
(*   "str"   name = "x"      "rule"  name = "camelCase"                    *)
(*   "path"  name = a::b     "closure"  name = |x| x                       *)
(*   "words" name(a, b)      "empty" name()    "shapes" / "badshape"       *)
(*   (lists of valid shape words / containing an unknown one; "dblprefix": a word with its prefix doubled)              *)
(* Positions: "c" container, <<"f", k>> field k, <<"v", j>> variant j, and *)
(* an item is [el, at, ix]: element, attribute number, item number.        *)
(***************************************************************************)
EXTENDS Common, SequencesExt

CONSTANTS Derives,          \* subset of the six derive names explored by this configuration
          Shapes,           \* body shapes explored
          ContainerItems, FieldItems, VariantItems,   \* option-item alphabets
          MaxContainer, MaxField1, MaxField2, MaxVariant1, MaxVariant2,
          EMIT

BadShapeForms == {"badshape", "dblprefix", "anybad", "litshape", "nvshape", "pathshape"}     \* an unknown word, a doubled prefix, an unknown word after `any`, a literal / a name-value item in the list, a word written as a path of several segments
AnyIx == 0..9            \* item numbers a position may carry (0 = the member itself)
ElementLevel == {"FromDeriveInput", "FromField", "FromVariant", "FromTypeParam", "FromAttributes"}
It(name, form) == [name |-> name, form |-> form]

-----------------------------------------------------------------------------
(* Which written forms each option's type accepts (the FromMeta impl of    *)
(* the option's field type)                                                *)
GoodForm(name, form) ==
  CASE name = "rename" -> form = "str"
    [] name = "default" -> form \in {"word", "str", "path"}
    [] name \in {"with", "from_word", "from_none"} -> form \in {"path", "closure"}
    [] name \in {"skip", "multiple", "allow_unknown_fields", "word"} -> form \in {"word", "true", "false"}
    [] name \in {"map", "and_then"} -> form \in {"str", "path"}
    [] name = "flatten" -> form = "word"
    [] name = "rename_all" -> form = "rule"
    [] name = "bound" -> form = "preds"                  \* a string holding where-predicates
    [] name = "attributes" -> form \in {"words", "empty"}
    [] name = "forward_attrs" -> form \in {"word", "words", "empty"}
    [] name = "from_ident" -> TRUE                       \* only the name is looked at (outer_from.rs:63)
    [] name = "supports" -> form \in {"shapes", "empty"}
    [] OTHER -> FALSE
Truthy(form) == form \in {"word", "true"}

\* attribute-level syntax that is not an option list: `#[darling]`, `#[darling = "x"]`, a bare literal inside the list,
\* a body that is not a meta list.  Each is reported once, at that attribute / literal (options/mod.rs parse_attr).
AttrSyntax == {"@bare", "@nv", "@lit", "@junk"}

\* diagnostics: [rule, pos]
Dg(rule, pos) == [rule |-> rule, pos |-> pos]

-----------------------------------------------------------------------------
(* Field options: InputField::parse_nested (input_field.rs:127-239)        *)
FieldInit == [rename |-> FALSE, default |-> FALSE, with |-> FALSE, skip |-> "none", xform |-> "", multiple |-> "none", flatten |-> FALSE]

\* returns [s: new option record, d: diagnostics of this item]
FieldItem(s, it, pos) ==
  LET n == it.name f == it.form bad == ~GoodForm(n, f)
      R(s2, ds) == [s |-> s2, d |-> ds]
      one(rule) == <<Dg(rule, pos)>>
  IN
  CASE n \in AttrSyntax -> R(s, one("attr-syntax"))
    [] n = "rename" ->
         IF s.rename THEN R(s, one("dup"))
         ELSE IF bad THEN R(s, one("form"))
         ELSE R([s EXCEPT !.rename = TRUE], IF s.flatten THEN one("flatten+rename") ELSE <<>>)
    [] n = "default" ->
         IF s.default THEN R(s, one("dup")) ELSE IF bad THEN R(s, one("form")) ELSE R([s EXCEPT !.default = TRUE], <<>>)
    [] n = "with" ->
         IF s.with THEN R(s, one("dup"))
         ELSE IF bad THEN R(s, one("form"))
         ELSE R([s EXCEPT !.with = TRUE], IF s.flatten THEN one("flatten+with") ELSE <<>>)
    [] n = "skip" ->
         IF s.skip # "none" THEN R(s, one("dup"))
         ELSE IF bad THEN R(s, one("form"))
         ELSE R([s EXCEPT !.skip = IF Truthy(f) THEN "true" ELSE "false"], IF Truthy(f) /\ s.flatten THEN one("flatten+skip") ELSE <<>>)
    [] n \in {"map", "and_then"} ->
         IF s.xform = n THEN R(s, one("dup"))
         ELSE IF s.xform # "" THEN R(s, one("map+and_then"))
         ELSE IF bad THEN R(s, one("form"))
         ELSE R([s EXCEPT !.xform = n], <<>>)
    [] n = "multiple" ->
         IF s.multiple # "none" THEN R(s, one("dup"))
         ELSE IF bad THEN R(s, one("form"))
         ELSE R([s EXCEPT !.multiple = IF Truthy(f) THEN "true" ELSE "false"], IF Truthy(f) /\ s.flatten THEN one("flatten+multiple") ELSE <<>>)
    [] n = "flatten" ->
         IF s.flatten THEN R(s, one("dup"))
         ELSE IF bad THEN R(s, one("form"))
         ELSE R([s EXCEPT !.flatten = TRUE],      \* every conflict with what is already set, accumulated
                (IF s.multiple = "true" THEN one("flatten+multiple") ELSE <<>>) \o (IF s.rename THEN one("flatten+rename") ELSE <<>>)
                \o (IF s.with THEN one("flatten+with") ELSE <<>>) \o (IF s.skip = "true" THEN one("flatten+skip") ELSE <<>>))
    [] OTHER -> R(s, one("unknown"))

(* Variant options: InputVariant::parse_nested (input_variant.rs:89-124)   *)
VariantInit == [rename |-> FALSE, skip |-> "none", word |-> "none"]     \* skip: "none" / "true" / "false" - `skip = false` is given but does not skip
VariantItem(s, it, pos, style) ==
  LET n == it.name f == it.form bad == ~GoodForm(n, f)
      R(s2, ds) == [s |-> s2, d |-> ds]
      one(rule) == <<Dg(rule, pos)>>
  IN
  CASE n \in AttrSyntax -> R(s, one("attr-syntax"))
    [] n = "rename" -> IF s.rename THEN R(s, one("dup")) ELSE IF bad THEN R(s, one("form")) ELSE R([s EXCEPT !.rename = TRUE], <<>>)
    [] n = "skip" -> IF s.skip # "none" THEN R(s, one("dup")) ELSE IF bad THEN R(s, one("form")) ELSE R([s EXCEPT !.skip = IF Truthy(f) THEN "true" ELSE "false"], <<>>)
    [] n = "word" ->
         IF s.word # "none" THEN R(s, one("dup"))
         ELSE IF style # "unit" THEN R(s, one("word-nonunit"))
         ELSE IF bad THEN R(s, one("form"))
         ELSE R([s EXCEPT !.word = IF Truthy(f) THEN "true" ELSE "false"], <<>>)
    [] OTHER -> R(s, one("unknown"))

(* Container options: Core / OuterFrom / FromMetaOptions / FdiOptions       *)
ContInit == [default |-> FALSE, xform |-> "", allow |-> FALSE, attributes |-> FALSE, forward |-> FALSE, from_ident |-> FALSE,
             from_word |-> FALSE, from_none |-> FALSE, supports |-> FALSE]
Knows(derive, n) ==
  \/ n \in {"default", "rename_all", "map", "and_then", "bound", "allow_unknown_fields"}
  \/ derive \in ElementLevel /\ n \in {"attributes", "forward_attrs", "from_ident"}
  \/ derive = "FromMeta" /\ n \in {"from_word", "from_none"}
  \/ derive \in {"FromDeriveInput", "FromVariant"} /\ n = "supports"
ContainerItem(derive, s, it, pos) ==
  LET n == it.name f == it.form bad == ~GoodForm(n, f)
      R(s2, ds) == [s |-> s2, d |-> ds]
      one(rule) == <<Dg(rule, pos)>>
  IN
  IF n \in AttrSyntax THEN R(s, one("attr-syntax"))
  ELSE IF ~Knows(derive, n) THEN R(s, one("unknown"))
  ELSE CASE n = "default" -> IF s.default THEN R(s, one("dup")) ELSE IF bad THEN R(s, one("form")) ELSE R([s EXCEPT !.default = TRUE], <<>>)
         [] n = "rename_all" -> IF bad THEN R(s, one("form")) ELSE R(s, <<>>)                       \* may be given again: overwritten
         [] n = "bound" -> IF bad THEN R(s, one("form")) ELSE R(s, <<>>)                            \* likewise
         [] n \in {"map", "and_then"} ->
              IF s.xform = n THEN R(s, one("dup")) ELSE IF s.xform # "" THEN R(s, one("map+and_then"))
              ELSE IF bad THEN R(s, one("form")) ELSE R([s EXCEPT !.xform = n], <<>>)
         [] n = "allow_unknown_fields" -> IF s.allow THEN R(s, one("dup")) ELSE IF bad THEN R(s, one("form")) ELSE R([s EXCEPT !.allow = TRUE], <<>>)
         [] n = "attributes" -> IF bad THEN R(s, one("form")) ELSE R([s EXCEPT !.attributes = (f = "words")], <<>>)
         [] n = "forward_attrs" -> IF bad THEN R(s, one("form")) ELSE R([s EXCEPT !.forward = TRUE], <<>>)
         [] n = "from_ident" -> R([s EXCEPT !.from_ident = TRUE, !.default = TRUE], <<>>)          \* HACK in the code: counts as a default
         [] n = "from_word" -> IF s.from_word THEN R(s, one("dup")) ELSE IF bad THEN R(s, one("form")) ELSE R([s EXCEPT !.from_word = TRUE], <<>>)
         [] n = "from_none" -> IF s.from_none THEN R(s, one("dup")) ELSE IF bad THEN R(s, one("form")) ELSE R([s EXCEPT !.from_none = TRUE], <<>>)
         [] n = "supports" -> IF f \in BadShapeForms THEN R(s, one("shape-word")) ELSE IF bad THEN R(s, one("form")) ELSE R([s EXCEPT !.supports = TRUE], <<>>)

-----------------------------------------------------------------------------
(* The builder + machine                                                   *)
\* shape: "named" (struct with named fields: field 1, optionally field 2), "named_attrs" (field 2 is the magic `attrs`),
\*        "unit", "newtype", "tuple2", "tuple0" (`struct D();`), "named0" (`struct D {}`), "enum" (variants 1, optionally 2), "enum0", "union"
\* style of the first variant: "unit", "newtype", "struct", "tuple2", "tuple0" (`V1()`), "struct0" (`V1 {}`) - drawn with the body, not with its options
VStyles == {"unit", "newtype", "struct", "tuple2", "tuple0", "struct0"}
VARIABLES derive, shape, cont, f1, f2, v1, v2, phase
\* cont/f1/f2/v1/v2: [items: the option items written, s: option record, d: diagnostics so far, style (variants)]
vars == <<derive, shape, cont, f1, f2, v1, v2, phase>>

El(s0) == [items |-> <<>>, s |-> s0, d |-> <<>>, style |-> "unit", present |-> FALSE]

Init ==
  /\ derive \in Derives /\ shape \in Shapes
  /\ cont = El(ContInit) /\ f1 = El(FieldInit) /\ f2 = El(FieldInit) /\ v2 = El(VariantInit)
  /\ \E st \in (IF shape = "enum" THEN VStyles ELSE {"unit"}) : v1 = [El(VariantInit) EXCEPT !.style = st]
  /\ phase = "container"

ItemPos(el, items) == <<el, Len(items) + 1>>

AddContainer ==
  /\ phase = "container" /\ Len(cont.items) < MaxContainer
  /\ \E it \in ContainerItems :
       LET r == ContainerItem(derive, cont.s, it, ItemPos("c", cont.items)) IN
       cont' = [cont EXCEPT !.items = Append(@, it), !.s = r.s, !.d = @ \o r.d]
  /\ UNCHANGED <<derive, shape, f1, f2, v1, v2, phase>>

ToBody == phase = "container" /\ phase' = "body1" /\ UNCHANGED <<derive, shape, cont, f1, f2, v1, v2>>

IsAttrsShape(sh) == sh \in {"named_attrs", "named_attrs_with"}      \* the magic `attrs` member, plain or with its own `with = ..`
\* field 1 is the first field of the struct - or, for an enum whose first variant is `V1 { a: u8 }`, that variant's field
VariantField == shape = "enum" /\ v1.style = "struct"
HasFields == shape = "named" \/ IsAttrsShape(shape) \/ VariantField
AddField1 ==
  /\ phase = "body1" /\ HasFields /\ Len(f1.items) < MaxField1
  /\ \E it \in FieldItems :
       LET r == FieldItem(f1.s, it, ItemPos("f1", f1.items)) IN
       f1' = [f1 EXCEPT !.items = Append(@, it), !.s = r.s, !.d = @ \o r.d, !.present = TRUE]
  /\ UNCHANGED <<derive, shape, cont, f2, v1, v2, phase>>
\* field 2: the struct's second field - or, next to `V1 { a: u8 }`, the field of a second struct variant `V2 { b: u8 }`
AddField2 ==
  /\ phase \in {"body1", "body2"} /\ (shape = "named" \/ (VariantField /\ \A i \in 1..Len(v2.items) : v2.items[i].name # "word")) /\ Len(f2.items) < MaxField2
  /\ \E it \in FieldItems :
       LET r == FieldItem(f2.s, it, ItemPos("f2", f2.items)) IN
       f2' = [f2 EXCEPT !.items = Append(@, it), !.s = r.s, !.d = @ \o r.d, !.present = TRUE]
  /\ phase' = "body2"
  /\ UNCHANGED <<derive, shape, cont, f1, v1, v2>>

AddVariant1 ==
  /\ phase = "body1" /\ shape = "enum" /\ Len(v1.items) < MaxVariant1
  /\ \E it \in VariantItems :
       LET r == VariantItem(v1.s, it, ItemPos("v1", v1.items), v1.style) IN
       v1' = [v1 EXCEPT !.items = Append(@, it), !.s = r.s, !.d = @ \o r.d, !.present = TRUE]
  /\ UNCHANGED <<derive, shape, cont, f1, f2, v2, phase>>
V2Style == IF shape = "enum" /\ v1.style = "struct" /\ f2.present THEN "struct" ELSE "unit"     \* `V2 { b: u8 }` when field 2 exists
AddVariant2 ==
  /\ phase \in {"body1", "body2"} /\ shape = "enum" /\ Len(v2.items) < MaxVariant2
  /\ \E it \in VariantItems :
       /\ (f2.present => it.name # "word")          \* V2 with a field is no unit variant; `word` on it is v1's business
       /\ LET r == VariantItem(v2.s, it, ItemPos("v2", v2.items), V2Style) IN
          v2' = [v2 EXCEPT !.items = Append(@, it), !.s = r.s, !.d = @ \o r.d, !.present = TRUE]
  /\ phase' = "body2"
  /\ UNCHANGED <<derive, shape, cont, f1, f2, v1>>

Finish == phase \in {"body1", "body2"} /\ phase' = "done" /\ UNCHANGED <<derive, shape, cont, f1, f2, v1, v2>>

Next == AddContainer \/ ToBody \/ AddField1 \/ AddField2 \/ AddVariant1 \/ AddVariant2 \/ Finish
Spec == Init /\ [][Next]_vars

-----------------------------------------------------------------------------
(* What the derive returns (options/*::new, then code generation)          *)

\* members that exist in the body for this shape
V1Style == v1.style
V1Ok == v1.d = <<>> /\ f1.d = <<>>              \* the first variant was collected (its options and its field's options parsed)
TupleN(st) == st \in {"tuple2", "tuple0"}          \* a tuple body FromMeta has no parser for: not exactly one field
FieldOk(f) == f.d = <<>>

\* validate_body and the body-level representability checks, in the code's order
BodyDiags ==
  LET elem == derive \in ElementLevel IN
  CASE shape = "union" -> <<>>                                            \* rejected in start(): see Result
    [] shape = "named" \/ IsAttrsShape(shape) ->
         f1.d \o (IF shape = "named" /\ f2.present THEN f2.d ELSE <<>>)
         \* Core::validate_body: more than one flatten field (among the fields that parsed)
         \o (IF shape = "named" /\ FieldOk(f1) /\ FieldOk(f2) /\ f1.s.flatten /\ f2.s.flatten
             THEN <<Dg("multi-flatten", <<"f1", 0>>), Dg("multi-flatten", <<"f2", 0>>)>> ELSE <<>>)
         \* OuterFrom::validate_body: an `attrs` field needs forward_attrs
         \o (IF IsAttrsShape(shape) /\ elem /\ ~cont.s.forward THEN <<Dg("attrs-without-forward", <<"f2", 0>>)>> ELSE <<>>)
    [] shape \in {"unit", "newtype"} ->
         IF derive = "FromMeta" /\ cont.s.from_word THEN <<Dg("from_word-unit-newtype", <<"c", 0>>)>> ELSE <<>>
    [] TupleN(shape) ->
         IF derive = "FromMeta" THEN <<Dg("body-unrepresentable", <<"body", 0>>)>> ELSE <<>>
    [] shape = "named0" -> <<>>
    [] shape = "enum0" -> IF elem THEN <<Dg("body-unrepresentable", <<"body", 0>>)>> ELSE <<>>
    [] shape = "enum" ->
         IF elem THEN <<Dg("body-unrepresentable", <<"v1", 0>>)>> \o (IF v2.present THEN <<Dg("body-unrepresentable", <<"v2", 0>>)>> ELSE <<>>)   \* one per variant
         ELSE (IF v1.d # <<>> THEN v1.d ELSE f1.d)      \* from_variant: the variant's own options, `?`, then its fields (a skipped variant's too)
              \o (IF v2.d # <<>> THEN v2.d ELSE IF f2.present THEN f2.d ELSE <<>>)
              \o (IF V1Ok /\ TupleN(V1Style) /\ v1.s.skip # "true" THEN <<Dg("body-unrepresentable", <<"v1", 0>>)>> ELSE <<>>)   \* a skipped variant is never parsed
              \o (LET w1 == V1Ok /\ v1.s.word = "true" w2 == v2.d = <<>> /\ (f2.present => f2.d = <<>>) /\ v2.s.word = "true" IN
                  (IF (w1 \/ w2) /\ cont.s.from_word THEN <<Dg("word+from_word", <<"c", 0>>)>> ELSE <<>>)
                  \o (IF w1 /\ w2 THEN <<Dg("multi-word", <<"v1", 0>>), Dg("multi-word", <<"v2", 0>>)>> ELSE <<>>))

Result ==
  IF shape = "union" THEN <<Dg("union", <<"call_site", 0>>)>>
  ELSE IF shape = "enum0" /\ derive \in ElementLevel THEN <<Dg("body-unrepresentable", <<"body", 0>>)>>   \* OuterFrom::start
  ELSE IF cont.d # <<>> THEN cont.d                                       \* parse_attributes(..)? returns first
  ELSE IF BodyDiags # <<>> THEN BodyDiags
  ELSE IF derive = "FromAttributes" /\ shape # "newtype" /\ ~cont.s.attributes
       THEN <<Dg("fromattributes-without-attributes", <<"call_site", 0>>)>>
  ELSE <<>>                                                               \* Impl
Done == phase = "done"

-----------------------------------------------------------------------------
(* Declarative: C10.  A violation names the rule and the set of positions  *)
(* at which a diagnostic for it is acceptable.                             *)

Viol(rule, where) == [rule |-> rule, where |-> where]
Idx(items, P(_)) == {i \in 1..Len(items) : P(items[i])}

\* violations among the option items of one element
ElementViolations(el, items, known(_), repeatable, style) ==
  LET named(n) == Idx(items, LAMBDA x : x.name = n)
      first(n) == CHOOSE i \in named(n) : \A j \in named(n) : i <= j
      \* the occurrence that takes effect: the first well-formed one
      effective(n) == {i \in named(n) : GoodForm(n, items[i].form) /\ \A j \in named(n) : j < i => ~GoodForm(n, items[j].form)}
      has(n) == effective(n) # {}
      truthy(n) == \E i \in effective(n) : Truthy(items[i].form)
      pos(i) == <<el, i>>
      \* every occurrence after the first of an option that may not be repeated
      \* an occurrence of an option that has already been given (well-formed) before
      accepted(j) == GoodForm(items[j].name, items[j].form) /\ ~(items[j].name = "word" /\ style # "unit")
      dups == {Viol("dup", {pos(i)}) : i \in {i \in 1..Len(items) : items[i].name \notin repeatable /\ known(items[i].name)
                                                                  /\ \E j \in 1..(i-1) : items[j].name = items[i].name /\ accepted(j)}}
      unknown == {Viol("unknown", {pos(i)}) : i \in Idx(items, LAMBDA x : ~known(x.name) /\ x.name \notin AttrSyntax)}
      syntax == {Viol("attr-syntax", {pos(i)}) : i \in Idx(items, LAMBDA x : x.name \in AttrSyntax)}
      \* a value written in a form the option does not take (first occurrences; a repeat is a repeat whatever its value)
      forms == {Viol("form", {pos(i)}) : i \in {i \in 1..Len(items) : known(items[i].name) /\ ~GoodForm(items[i].name, items[i].form)
                                                                   /\ (items[i].name \in repeatable \/ \A j \in 1..(i-1) : ~(items[j].name = items[i].name /\ accepted(j)))
                                                                   /\ ~(items[i].name = "word" /\ style # "unit")
                                                                   /\ ~(items[i].name = "supports" /\ items[i].form \in BadShapeForms)}}
      conflict(a, b, rule) == IF has(a) /\ has(b) THEN {Viol(rule, {pos(i) : i \in named(a) \cup named(b)})} ELSE {}
      flattenGood == has("flatten")
  IN dups \cup unknown \cup forms \cup syntax
     \cup (IF flattenGood /\ has("rename") THEN conflict("flatten", "rename", "flatten+rename") ELSE {})
     \cup (IF flattenGood /\ has("with") THEN conflict("flatten", "with", "flatten+with") ELSE {})
     \cup (IF flattenGood /\ truthy("skip") THEN conflict("flatten", "skip", "flatten+skip") ELSE {})
     \cup (IF flattenGood /\ truthy("multiple") THEN conflict("flatten", "multiple", "flatten+multiple") ELSE {})
     \cup (IF has("map") /\ has("and_then") THEN {Viol("map+and_then", {pos(i) : i \in named("map") \cup named("and_then")})} ELSE {})
     \cup (IF named("word") # {} /\ style # "unit" THEN {Viol("word-nonunit", {pos(i) : i \in named("word")})} ELSE {})
     \cup {Viol("shape-word", {pos(i)}) : i \in Idx(items, LAMBDA x : x.name = "supports" /\ x.form \in BadShapeForms /\ known("supports"))}

FieldKnown(n) == n \in {"rename", "default", "with", "skip", "map", "and_then", "multiple", "flatten"}
VariantKnown(n) == n \in {"rename", "skip", "word"}
ContRepeatable == {"rename_all", "bound", "attributes", "forward_attrs", "from_ident", "supports"}

ContainerViolations == ElementViolations("c", cont.items, LAMBDA n : Knows(derive, n), ContRepeatable, "unit")

Flattens(f) == f.present /\ \E i \in 1..Len(f.items) : f.items[i].name = "flatten" /\ f.items[i].form = "word"
WordTrue(v) == \E i \in 1..Len(v.items) : v.items[i].name = "word" /\ Truthy(v.items[i].form)
                  /\ \A j \in 1..(i-1) : v.items[j].name # "word"
Given(n) == \E i \in 1..Len(cont.items) : cont.items[i].name = n /\ GoodForm(n, cont.items[i].form)

BodyViolations ==
  LET elem == derive \in ElementLevel IN
  CASE shape = "named" \/ IsAttrsShape(shape) ->
         ElementViolations("f1", f1.items, FieldKnown, {}, "unit")
         \cup (IF shape = "named" THEN ElementViolations("f2", f2.items, FieldKnown, {}, "unit") ELSE {})
         \cup (IF shape = "named" /\ Flattens(f1) /\ Flattens(f2) THEN {Viol("multi-flatten", {<<"f1", 0>>, <<"f2", 0>>} \cup {<<"f1", i>> : i \in AnyIx \ {0}} \cup {<<"f2", i>> : i \in AnyIx \ {0}})} ELSE {})
         \cup (IF IsAttrsShape(shape) /\ elem /\ ~Given("forward_attrs") THEN {Viol("attrs-without-forward", {<<"f2", 0>>})} ELSE {})
    [] shape \in {"unit", "newtype"} ->
         IF derive = "FromMeta" /\ Given("from_word") THEN {Viol("from_word-unit-newtype", {<<"c", i>> : i \in AnyIx})} ELSE {}
    [] TupleN(shape) -> IF derive = "FromMeta" THEN {Viol("body-unrepresentable", {<<"body", 0>>})} ELSE {}
    [] shape = "named0" -> {}
    [] shape = "enum0" -> IF elem THEN {Viol("body-unrepresentable", {<<"body", 0>>, <<"call_site", 0>>})} ELSE {}
    [] shape = "enum" ->
         IF elem THEN {Viol("body-unrepresentable", {<<"v1", 0>>, <<"v2", 0>>, <<"body", 0>>})}
         ELSE ElementViolations("v1", v1.items, VariantKnown, {}, V1Style) \cup ElementViolations("v2", v2.items, VariantKnown, {}, V2Style)
              \cup (IF V1Style = "struct" THEN ElementViolations("f1", f1.items, FieldKnown, {}, "unit") ELSE {})   \* options of a variant's field - skipped or not
              \cup (IF V1Style = "struct" /\ f2.present THEN ElementViolations("f2", f2.items, FieldKnown, {}, "unit") ELSE {})   \* one flatten member per VARIANT is fine
              \cup (IF TupleN(V1Style) /\ ~(\E i \in 1..Len(v1.items) : /\ v1.items[i].name = "skip" /\ Truthy(v1.items[i].form)      \* the skip that takes effect says yes
                                                                     /\ \A j \in 1..(i-1) : ~(v1.items[j].name = "skip" /\ GoodForm("skip", v1.items[j].form)))
                    THEN {Viol("body-unrepresentable", {<<"v1", i>> : i \in AnyIx})} ELSE {})
              \cup (IF ((WordTrue(v1) /\ V1Style = "unit") \/ (WordTrue(v2) /\ V2Style = "unit")) /\ Given("from_word")
                    THEN {Viol("word+from_word", {<<"c", i>> : i \in AnyIx} \cup {<<"v1", i>> : i \in AnyIx} \cup {<<"v2", i>> : i \in AnyIx})} ELSE {})
              \cup (IF WordTrue(v1) /\ V1Style = "unit" /\ WordTrue(v2) /\ V2Style = "unit"
                    THEN {Viol("multi-word", {<<"v1", i>> : i \in AnyIx} \cup {<<"v2", i>> : i \in AnyIx})} ELSE {})
    [] shape = "union" -> {}

WholeViolations ==
  (IF shape = "union" THEN {Viol("union", {<<"call_site", 0>>, <<"body", 0>>})} ELSE {})
  \cup (IF derive = "FromAttributes" /\ shape # "newtype" /\ ~(\E i \in 1..Len(cont.items) : cont.items[i].name = "attributes" /\ cont.items[i].form = "words")
        THEN {Viol("fromattributes-without-attributes", {<<"call_site", 0>>} \cup {<<"c", i>> : i \in AnyIx})} ELSE {})

AllViolations == ContainerViolations \cup BodyViolations \cup WholeViolations
WellFormed == AllViolations = {}

\* the scope the derive reports: the union verdict, else the container's options, else the body, else whole-declaration rules
ReportedScope ==
  IF shape = "union" THEN {v \in WholeViolations : v.rule = "union"}
  ELSE IF shape = "enum0" /\ derive \in ElementLevel THEN BodyViolations       \* whole-element verdicts come first
  ELSE IF ContainerViolations # {} THEN ContainerViolations
  ELSE IF BodyViolations # {}
       THEN (IF shape = "enum" /\ derive \notin ElementLevel
             THEN LET hide == (IF ElementViolations("v1", v1.items, VariantKnown, {}, V1Style) # {} THEN {"f1"} ELSE {})
                              \cup (IF ElementViolations("v2", v2.items, VariantKnown, {}, V2Style) # {} THEN {"f2"} ELSE {})
                  IN {v \in BodyViolations : \A p \in v.where : p[1] \notin hide}   \* a variant's fields are looked at once its own options are clean
             ELSE BodyViolations)
  ELSE WholeViolations

Covered(v, ds) == \E i \in 1..Len(ds) : ds[i].pos \in v.where
Explained(d, vs) == \E v \in vs : d.pos \in v.where

\* KNOWN DEVIATION of the code from C10 (recorded in KNOWN_FINDINGS.json, not repaired): `from_ident` is implemented by
\* pretending a container `default` was given (outer_from.rs:63-70), so `from_ident` FOLLOWED BY `default` is rejected as a
\* repeated `default` although neither option was repeated and the pair is not a documented conflict (the other order is
\* accepted and the explicit default silently ignored).  The operational machine models the code; the declarative side
\* does not list the pair as a violation; the invariants below set exactly these declarations aside.
FromIdentThenDefault ==
  \E i, j \in 1..Len(cont.items) : i < j /\ cont.items[i].name = "from_ident" /\ cont.items[j].name = "default" /\ Knows(derive, "from_ident")

C10_Iff == (Done /\ ~FromIdentThenDefault) => ((Result = <<>>) <=> WellFormed)
C10_AllOfScope == (Done /\ Result # <<>> /\ ~FromIdentThenDefault) => \A v \in ReportedScope : Covered(v, Result)
\* the documented option conflicts are reported rule by rule: the conflict rules of the reported scope can be assigned
\* distinct diagnostics, each at one of its rule's offending positions (two conflicts at the same option take two)
ConflictRules == {"flatten+rename", "flatten+with", "flatten+skip", "flatten+multiple", "map+and_then"}
OwnDiagnostic(vs, ds) ==
  \E f \in [vs -> 1..Len(ds)] : (\A v, w \in vs : v # w => f[v] # f[w]) /\ (\A v \in vs : ds[f[v]].pos \in v.where)
C10_EachConflict == (Done /\ Result # <<>> /\ ~FromIdentThenDefault) =>
  LET cs == {v \in ReportedScope : v.rule \in ConflictRules} IN Cardinality(cs) < 2 \/ OwnDiagnostic(cs, Result)
C10_NoInvented == (Done /\ Result # <<>> /\ ~FromIdentThenDefault) => \A i \in 1..Len(Result) : Explained(Result[i], AllViolations)

EmitDone == (EMIT /\ Done) =>
  Emit("REPLAY", [derive |-> derive, shape |-> shape, cont |-> cont.items, f1 |-> f1.items, f2 |-> f2.items,
                  v1 |-> v1.items, v1style |-> V1Style, v2 |-> v2.items, f2present |-> f2.present, v2present |-> v2.present,
                  expect |-> [impl |-> WellFormed,
                              scope |-> [v \in 1..Cardinality(ReportedScope) |-> "x"],
                              must_cover |-> SetToSeq({SetToSeq(v.where) : v \in ReportedScope}),
                              own |-> SetToSeq({SetToSeq(v.where) : v \in {v \in ReportedScope : v.rule \in ConflictRules}}),
                              may_sit |-> SetToSeq(UNION {v.where : v \in AllViolations})],
                  model |-> Result])
=============================================================================
