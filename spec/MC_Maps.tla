------------------------------- MODULE MC_Maps -------------------------------
EXTENDS Maps
K(lead, segs) == [lead |-> lead, segs |-> segs]
\* two plain keys, a global spelling of the first (collides with it for String keys only), a two-segment key
MCKeys == {K(FALSE, <<"k1">>), K(FALSE, <<"k2">>), K(TRUE, <<"k1">>), K(FALSE, <<"a", "b">>)}
MCKeysWide == MCKeys \cup {K(FALSE, <<"k3">>), K(TRUE, <<"a", "b">>)}
=============================================================================
