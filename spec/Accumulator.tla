----------------------------- MODULE Accumulator -----------------------------
(***************************************************************************)
(* darling::error::Accumulator (core/src/error/mod.rs:778-920).            *)
(*                                                                         *)
(* One action per public method.  `live` says whether the program still    *)
(* owns an armed accumulator (Rust's ownership makes every consuming       *)
(* method the last one on that value), `errs` is the live vector.  `hist`  *)
(* is the history of calls with their results; the declarative clauses of  *)
(* the property are stated over `hist` alone and TLC checks that the       *)
(* operational state agrees with them after every call.                    *)
(***************************************************************************)
EXTENDS Common

CONSTANTS
  ErrIds,     \* error identities (strings); the harness maps each to a real Error
  Vals,       \* success values
  MaxOps,     \* history length bound
  MaxExtend,  \* most errors fed by one extend()
  EMIT

VARIABLES live, errs, hist
vars == <<live, errs, hist>>

Op(name, e, v, es) == [name |-> name, e |-> e, v |-> v, es |-> es]
Res(t, v, es, n)   == [t |-> t, v |-> v, es |-> es, n |-> n]

RUnit      == Res("unit", 0, <<>>, 0)
RSome(v)   == Res("some", v, <<>>, 0)
RNone      == Res("none", 0, <<>>, 0)
ROk(v)     == Res("ok", v, <<>>, 0)
ROkAcc     == Res("ok_acc", 0, <<>>, 0)      \* checkpoint handed back a fresh accumulator
RErr(es)   == Res("err", 0, es, Len(es))     \* Err(Error::multiple(es))
RVec(es)   == Res("vec", 0, es, Len(es))
RPanic(n)  == Res("panic", 0, <<>>, n)       \* drop bomb; n errors reported lost
RUnwound   == Res("unwound", 0, <<>>, 0)     \* original panic propagated, no second panic

Init == live = TRUE /\ errs = <<>> /\ hist = <<>>          \* Error::accumulator()

Do(op, res, live2, errs2) ==
  /\ live /\ Len(hist) < MaxOps
  /\ live' = live2 /\ errs' = errs2
  /\ hist' = Append(hist, [op |-> op, res |-> res])

\* push (mod.rs:841)
Push == \E e \in ErrIds : Do(Op("push", e, 0, <<>>), RUnit, TRUE, Append(errs, e))
\* handle (mod.rs:791)
HandleOk  == \E v \in Vals   : Do(Op("handle_ok", "", v, <<>>), RSome(v), TRUE, errs)
HandleErr == \E e \in ErrIds : Do(Op("handle_err", e, 0, <<>>), RNone, TRUE, Append(errs, e))
\* handle_in (mod.rs:784)
HandleInOk  == \E v \in Vals   : Do(Op("handle_in_ok", "", v, <<>>), RSome(v), TRUE, errs)
HandleInErr == \E e \in ErrIds : Do(Op("handle_in_err", e, 0, <<>>), RNone, TRUE, Append(errs, e))
\* Extend (mod.rs:898)
ExtendOp == \E n \in 0..MaxExtend : \E es \in [1..n -> ErrIds] :
              Do(Op("extend", "", 0, es), RUnit, TRUE, errs \o es)
\* finish_with / finish (mod.rs:803-820)
FinishWith == \E v \in Vals :
  Do(Op("finish_with", "", v, <<>>), IF errs = <<>> THEN ROk(v) ELSE RErr(errs), FALSE, <<>>)
Finish == Do(Op("finish", "", 0, <<>>), IF errs = <<>> THEN ROk(0) ELSE RErr(errs), FALSE, <<>>)
\* into_inner (mod.rs:833)
IntoInner == Do(Op("into_inner", "", 0, <<>>), RVec(errs), FALSE, <<>>)
\* checkpoint (mod.rs:883): finish()? then a fresh armed accumulator
Checkpoint ==
  IF errs = <<>>
  THEN Do(Op("checkpoint", "", 0, <<>>), ROkAcc, TRUE, <<>>)
  ELSE Do(Op("checkpoint", "", 0, <<>>), RErr(errs), FALSE, <<>>)
\* Drop (mod.rs:907) outside / inside unwinding
DropOp       == Do(Op("drop", "", 0, <<>>), RPanic(Len(errs)), FALSE, <<>>)
UnwindDropOp == Do(Op("unwind_drop", "", 0, <<>>), RUnwound, FALSE, <<>>)

Next == \/ Push \/ HandleOk \/ HandleErr \/ HandleInOk \/ HandleInErr \/ ExtendOp
        \/ FinishWith \/ Finish \/ IntoInner \/ Checkpoint \/ DropOp \/ UnwindDropOp

Spec == Init /\ [][Next]_vars

-----------------------------------------------------------------------------
(* The property, stated over histories only                                *)

Records(h) ==   \* what one call records
  IF h.op.name \in {"push", "handle_err", "handle_in_err"} THEN <<h.op.e>>
  ELSE IF h.op.name = "extend" THEN h.op.es ELSE <<>>

\* index of the last successful checkpoint strictly before position i (0 if none)
LastCp(i) ==
  LET S == {j \in 1..(i-1) : hist[j].op.name = "checkpoint" /\ hist[j].res.t = "ok_acc"}
  IN IF S = {} THEN 0 ELSE CHOOSE j \in S : \A k \in S : k <= j

RecordedBefore(i) == ConcatAll([j \in 1..(i - 1 - LastCp(i)) |-> Records(hist[LastCp(i) + j])])

ClauseOk(i) ==
  LET h == hist[i] rec == RecordedBefore(i) nm == h.op.name IN
  /\ nm \in {"finish", "finish_with"} =>
        IF rec = <<>> THEN h.res.t = "ok" /\ h.res.v = h.op.v
        ELSE h.res.t = "err" /\ h.res.es = rec                 \* all of them, in recording order
  /\ nm \in {"handle_ok", "handle_in_ok"} => h.res = RSome(h.op.v)
  /\ nm \in {"handle_err", "handle_in_err"} => h.res.t = "none"
  /\ nm = "checkpoint" => IF rec = <<>> THEN h.res.t = "ok_acc" ELSE h.res.t = "err" /\ h.res.es = rec
  /\ nm = "into_inner" => h.res.t = "vec" /\ h.res.es = rec
  /\ nm = "drop" => h.res.t = "panic" /\ h.res.n = Len(rec)    \* even when empty
  /\ nm = "unwind_drop" => h.res.t = "unwound"

Clauses == \A i \in 1..Len(hist) : ClauseOk(i)

\* a consumed accumulator is never used again; a fresh one after checkpoint is armed
Ownership ==
  /\ \A i \in 1..Len(hist) :
       hist[i].op.name \in {"finish", "finish_with", "into_inner", "drop", "unwind_drop"} => i = Len(hist)
  /\ \A i \in 1..Len(hist) : hist[i].op.name = "checkpoint" /\ hist[i].res.t = "err" => i = Len(hist)
  /\ live = (hist = <<>> \/ hist[Len(hist)].res.t \in {"unit", "some", "none", "ok_acc"})
  /\ live => errs = RecordedBefore(Len(hist) + 1)

\* one REPLAY line per complete history (the accumulator has been consumed) and per
\* history cut by the bound
Complete == ~live \/ Len(hist) = MaxOps
EmitDone == (EMIT /\ Complete /\ hist # <<>>) => Emit("REPLAY", [hist |-> hist, live |-> live, errs |-> errs])
=============================================================================
