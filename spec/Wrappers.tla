------------------------------- MODULE Wrappers -------------------------------
(***************************************************************************)
(* Wrapper types over a conversion: Option, Box/Rc/Arc/RefCell ("box"),    *)
(* darling::Result<T> ("result"), Result<T, Meta> ("resultmeta"),          *)
(* SpannedValue ("spanned"), WithOriginal ("original"), Override           *)
(* (from_meta.rs:600-668, util/spanned_value.rs, with_original.rs,         *)
(* over_ride.rs).                                                          *)
(*                                                                         *)
(* An implementer is a term: a BASE target - any subset `ov` of the trait's *)
(* entry points it overrides, an acceptance predicate over item forms, and  *)
(* whether it has a value-for-absent - or a wrapper around an implementer. *)
(* Call(X, entry, f) is the result of calling X's `from_<entry>` on an item *)
(* of form f: an overridden entry of a base target decides by its           *)
(* predicate, every other entry is the trait's default (which dispatches    *)
(* further, see MetaRouting.tla), and each wrapper overrides exactly the    *)
(* entries its impl block overrides, forwarding them to the inner           *)
(* implementer.  The inner target is ABSTRACT: TLC checks the transparency  *)
(* law for every base target, not only for darling's own.                   *)
(***************************************************************************)
EXTENDS Common

CONSTANTS MaxDepth, EMIT,
          OverrideForwardsMeta   \* TRUE: Override forwards whole items / expressions to T (the repaired impl); FALSE: the impl as pinned

Entries == {"meta", "word", "list", "expr", "value", "bool", "string", "char"}
Forms == {"word", "list", "nv_bool", "nv_str", "nv_char", "nv_int", "nv_path"}
WKinds == {"option", "box", "result", "resultmeta", "spanned", "original", "override"}

\* acceptance predicates of base targets (what an overridden entry does with a form)
Acc == [all |-> Forms, none |-> {}, lits |-> {"nv_bool", "nv_str", "nv_char", "nv_int"}, nonlits |-> {"word", "list", "nv_path"}]

Ok(v)  == [ok |-> TRUE, v |-> v, e |-> <<>>]
Err(e) == [ok |-> FALSE, v |-> <<>>, e |-> e]

\* implementers are sequences: <<base>> or <<wrapper kind, ...inner>>; base = [ov, acc, none]
IsBase(X) == Len(X) = 1
Inner(X) == Tail(X)

RECURSIVE Call(_, _, _), NoneOf(_)

\* the trait's provided methods (from_meta.rs:54-156), for implementer X
Default(X, entry, f) ==
  CASE entry = "meta" -> (CASE f = "word" -> Call(X, "word", f) [] f = "list" -> Call(X, "list", f) [] OTHER -> Call(X, "expr", f))
    [] entry = "expr" -> IF f = "nv_path" THEN Err(<<"default", "exprtype">>) ELSE Call(X, "value", f)
    [] entry = "value" -> (CASE f = "nv_bool" -> Call(X, "bool", f) [] f = "nv_str" -> Call(X, "string", f)
                             [] f = "nv_char" -> Call(X, "char", f) [] OTHER -> Err(<<"default", "littype">>))
    [] OTHER -> Err(<<"default", entry>>)

MapOk(r, tag) == IF r.ok THEN Ok(<<tag, r.v>>) ELSE r

Call(X, entry, f) ==
  IF IsBase(X) THEN
    LET B == X[1] IN
    IF entry \in B.ov THEN (IF f \in Acc[B.acc] THEN Ok(<<"T", f>>) ELSE Err(<<"T-rejects", entry, f>>))
    ELSE Default(X, entry, f)
  ELSE LET k == X[1] I == Inner(X) IN
    CASE k = "option" ->      \* from_meta only
           IF entry = "meta" THEN MapOk(Call(I, "meta", f), "Some") ELSE Default(X, entry, f)
      [] k = "box" ->         \* from_meta, from_list
           IF entry \in {"meta", "list"} THEN MapOk(Call(I, entry, f), "Box") ELSE Default(X, entry, f)
      [] k = "result" ->      \* from_meta, from_list: never fails outwardly
           IF entry \in {"meta", "list"} THEN Ok(<<"Outcome", Call(I, entry, f)>>) ELSE Default(X, entry, f)
      [] k = "resultmeta" ->  \* from_meta: T's value or the original item
           IF entry = "meta" THEN (LET r == Call(I, "meta", f) IN IF r.ok THEN Ok(<<"Ok", r.v>>) ELSE Ok(<<"Item", f>>))
           ELSE Default(X, entry, f)
      [] k = "spanned" ->     \* from_meta, from_value, from_expr (and from_nested_meta)
           IF entry \in {"meta", "value", "expr"} THEN MapOk(Call(I, entry, f), "Spanned") ELSE Default(X, entry, f)
      [] k = "original" ->    \* from_meta
           IF entry = "meta" THEN MapOk(Call(I, "meta", f), "WithOriginal") ELSE Default(X, entry, f)
      [] k = "override" ->    \* over_ride.rs: the bare word is Inherit, every other form is T's
           IF entry = "word" THEN Ok(<<"Inherit">>)
           ELSE IF entry = "meta" /\ OverrideForwardsMeta THEN (IF f = "word" THEN Ok(<<"Inherit">>) ELSE MapOk(Call(I, "meta", f), "Explicit"))
           ELSE IF entry = "expr" /\ OverrideForwardsMeta THEN MapOk(Call(I, entry, f), "Explicit")
           ELSE IF entry \in {"list", "value", "char", "string", "bool"} THEN MapOk(Call(I, entry, f), "Explicit")
           ELSE Default(X, entry, f)

\* from_none: <<v>> or <<>>
NoneOf(X) ==
  IF IsBase(X) THEN (IF X[1].none THEN <<<<"T-none">>>> ELSE <<>>)
  ELSE LET k == X[1] I == Inner(X) IN
    CASE k = "option" -> <<<<"None">>>>
      [] k = "box" -> IF NoneOf(I) = <<>> THEN <<>> ELSE <<<<"Box", NoneOf(I)[1]>>>>
      [] k = "result" -> IF NoneOf(I) = <<>> THEN <<>> ELSE <<<<"Outcome", Ok(NoneOf(I)[1])>>>>
      [] OTHER -> <<>>

-----------------------------------------------------------------------------
Bases == {<<[ov |-> o, acc |-> a, none |-> n]>> : o \in SUBSET Entries, a \in DOMAIN Acc, n \in BOOLEAN}

VARIABLES X, checked
vars == <<X, checked>>
Init == X \in Bases /\ checked = FALSE
Wrap == ~checked /\ Len(X) <= MaxDepth /\ \E k \in WKinds : X' = <<k>> \o X /\ UNCHANGED checked
Next == Wrap
Spec == Init /\ [][Next]_vars

\* C12: what the outermost wrapper must do with its inner implementer's own outcome
TagOf(k) == CASE k = "option" -> "Some" [] k = "box" -> "Box" [] k = "spanned" -> "Spanned" [] k = "original" -> "WithOriginal" [] OTHER -> "Explicit"
LawAt(f) ==
  LET k == X[1] I == Inner(X) inner == Call(I, "meta", f) outer == Call(X, "meta", f) IN
  CASE k \in {"option", "box", "spanned", "original"} ->
         /\ outer.ok = inner.ok                                        \* accepts exactly what T accepts
         /\ inner.ok => outer.v = <<TagOf(k), inner.v>>                 \* contains exactly T's value
         /\ ~inner.ok => outer.e = inner.e                              \* fails with T's error
    [] k = "override" ->
         IF f = "word" THEN outer = Ok(<<"Inherit">>)
         ELSE /\ outer.ok = inner.ok /\ (inner.ok => outer.v = <<"Explicit", inner.v>>) /\ (~inner.ok => outer.e = inner.e)
    [] k = "result" -> outer = Ok(<<"Outcome", inner>>)                  \* never fails outwardly, holds T's outcome
    [] k = "resultmeta" -> outer.ok /\ outer.v = (IF inner.ok THEN <<"Ok", inner.v>> ELSE <<"Item", f>>)

LawNone ==
  LET k == X[1] I == Inner(X) IN
  CASE k = "option" -> NoneOf(X) = <<<<"None">>>>
    [] k = "box" -> (NoneOf(X) = <<>>) = (NoneOf(I) = <<>>) /\ (NoneOf(I) # <<>> => NoneOf(X)[1] = <<"Box", NoneOf(I)[1]>>)
    [] k = "result" -> (NoneOf(X) = <<>>) = (NoneOf(I) = <<>>)
    [] OTHER -> NoneOf(X) = <<>>                                          \* the other wrappers stay required

C12_Transparent == ~IsBase(X) => (\A f \in Forms : LawAt(f)) /\ LawNone

\* one REPLAY line per (wrapper chain, form): the harness instantiates the chain over real inner targets
\* and probe implementers and applies the law to the inner target's own outcome
RefBase == <<[ov |-> {}, acc |-> "all", none |-> FALSE]>>
Kinds(Y) == IF IsBase(Y) THEN <<>> ELSE SubSeq(Y, 1, Len(Y) - 1)
Replayable(Y) == Len(Y) = 2 \/ (Len(Y) = 3 /\ Y[2] \in {"option", "box", "spanned", "override", "result"})
EmitChains ==
  (EMIT /\ ~IsBase(X) /\ X[Len(X)] = RefBase[1] /\ Replayable(X)) =>
     \A f \in Forms : Emit("REPLAY", [chain |-> Kinds(X), form |-> f])
=============================================================================
