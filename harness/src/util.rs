//! Shared helpers: REPLAY-line reader, deterministic PRNG, span table, message templates.
use proc_macro2::{Span, TokenStream, TokenTree};
use serde_json::Value;
use std::io::{BufRead, BufReader};

/// Iterate over the JSON payloads of `<<"TAG", "...">>` lines printed by TLC.
pub fn read_tagged(path: &str, tag: &str) -> Vec<Value> {
    let f = std::fs::File::open(path).unwrap_or_else(|e| panic!("open {}: {}", path, e));
    let prefix = format!("<<\"{}\", ", tag);
    let mut out = Vec::new();
    for line in BufReader::new(f).lines() {
        let line = line.expect("read line");
        if let Some(rest) = line.strip_prefix(&prefix) {
            let lit = rest.trim_end().strip_suffix(">>").expect("tagged line ends with >>");
            let inner: String = serde_json::from_str(lit).expect("TLA+ string literal");
            out.push(serde_json::from_str(&inner).expect("payload json"));
        }
    }
    out
}

pub fn read_ndjson(path: &str) -> Vec<Value> {
    let f = std::fs::File::open(path).unwrap_or_else(|e| panic!("open {}: {}", path, e));
    BufReader::new(f)
        .lines()
        .map(|l| l.unwrap())
        .filter(|l| !l.trim().is_empty())
        .map(|l| serde_json::from_str(&l).expect("ndjson line"))
        .collect()
}

/// splitmix64 - small deterministic generator (no external crate needed)
#[derive(Clone)]
pub struct Rng(pub u64);
impl Rng {
    pub fn new(seed: u64) -> Self {
        Rng(seed.wrapping_mul(0x9E3779B97F4A7C15).wrapping_add(0x1234_5678_9ABC_DEF1))
    }
    pub fn next(&mut self) -> u64 {
        self.0 = self.0.wrapping_add(0x9E3779B97F4A7C15);
        let mut z = self.0;
        z = (z ^ (z >> 30)).wrapping_mul(0xBF58476D1CE4E5B9);
        z = (z ^ (z >> 27)).wrapping_mul(0x94D049BB133111EB);
        z ^ (z >> 31)
    }
    pub fn below(&mut self, n: usize) -> usize {
        if n == 0 { 0 } else { (self.next() % n as u64) as usize }
    }
    pub fn chance(&mut self, num: u64, den: u64) -> bool {
        self.next() % den < num
    }
    pub fn pick<'a, T>(&mut self, xs: &'a [T]) -> &'a T {
        &xs[self.below(xs.len())]
    }
}

/// A table of distinct real spans: span id `i` (1-based) is the i-th identifier of a parsed
/// source text that starts on line 2, so that line 1 / column 0 (call site) is never one of them.
pub struct SpanTable {
    spans: Vec<Span>,
}
impl SpanTable {
    pub fn new(n: usize) -> Self {
        let mut src = String::from("\n");
        for i in 0..n {
            src.push_str(&format!("s{} ", i + 1));
        }
        let ts: TokenStream = src.parse().expect("span table source");
        let spans = ts
            .into_iter()
            .map(|t| match t {
                TokenTree::Ident(i) => i.span(),
                _ => unreachable!(),
            })
            .collect();
        SpanTable { spans }
    }
    pub fn get(&self, id: u64) -> Span {
        self.spans[(id - 1) as usize]
    }
    /// 0 when the span is none of the table's (e.g. call site)
    pub fn id_of(&self, s: Span) -> u64 {
        let a = s.start();
        let b = s.end();
        for (i, t) in self.spans.iter().enumerate() {
            if t.start() == a && t.end() == b && a.line >= 2 {
                return (i + 1) as u64;
            }
        }
        0
    }
}

pub fn lc(s: Span) -> (usize, usize, usize, usize) {
    (s.start().line, s.start().column, s.end().line, s.end().column)
}

/// Run a closure, turning a panic into Err(message). The default hook is silenced by main().
pub fn catch<T, F: FnOnce() -> T + std::panic::UnwindSafe>(f: F) -> Result<T, String> {
    std::panic::catch_unwind(f).map_err(|p| {
        if let Some(s) = p.downcast_ref::<&str>() {
            s.to_string()
        } else if let Some(s) = p.downcast_ref::<String>() {
            s.clone()
        } else {
            "<non-string panic payload>".to_string()
        }
    })
}

/// Templates of the crate's own messages, obtained from the public constructors at run time,
/// so that a rewording flows through both sides of every comparison.
pub struct Templates {
    /// (kind, prefix, suffix)
    pub named: Vec<(&'static str, String, String)>,
    pub unknown_alt: (String, String, String),
}

const PH: &str = "\u{1}N\u{1}";
const PH2: &str = "\u{1}M\u{1}";

fn split1(s: &str) -> (String, String) {
    let i = s.find(PH).expect("placeholder survives in message");
    (s[..i].to_string(), s[i + PH.len()..].to_string())
}

impl Templates {
    pub fn new() -> Self {
        use darling::Error as E;
        let mut named = Vec::new();
        named.push(("dup", E::duplicate_field(PH).to_string()));
        named.push(("missing", E::missing_field(PH).to_string()));
        named.push(("unknown", E::unknown_field(PH).to_string()));
        named.push(("shape", E::unsupported_shape(PH).to_string()));
        named.push(("shapeexp", E::unsupported_shape_with_expected(PH, &"e1 or e2").to_string()));   // a message that ends in a full stop
        named.push(("format", E::unsupported_format(PH).to_string()));
        named.push(("type", E::unexpected_type(PH).to_string()));
        named.push(("value", E::unknown_value(PH).to_string()));
        let mut named: Vec<_> = named
            .into_iter()
            .map(|(k, s)| {
                let (a, b) = split1(&s);
                (k, a, b)
            })
            .collect();
        // numeric kinds: learn the template from two instances
        let f = |a: String, b: String| {
            // common prefix / suffix around the differing digits
            let ab = a.as_bytes();
            let bb = b.as_bytes();
            let mut p = 0;
            while p < ab.len() && p < bb.len() && ab[p] == bb[p] { p += 1; }
            let mut s = 0;
            while s < ab.len() - p && s < bb.len() - p && ab[ab.len() - 1 - s] == bb[bb.len() - 1 - s] { s += 1; }
            (a[..p].to_string(), a[a.len() - s..].to_string())
        };
        let (p, s) = f(E::too_few_items(7).to_string(), E::too_few_items(8).to_string());
        named.push(("toofew", p, s));
        let (p, s) = f(E::too_many_items(7).to_string(), E::too_many_items(8).to_string());
        named.push(("toomany", p, s));
        // unknown with suggestion: identical names always clear the similarity threshold
        let with_alt = darling::Error::unknown_field_with_alts(PH, &[PH.to_string()]).to_string();
        // the message now contains PH twice (or once, if suggestions are disabled)
        let unknown_alt = {
            let first = with_alt.find(PH).unwrap();
            let rest = &with_alt[first + PH.len()..];
            if let Some(second) = rest.find(PH) {
                (
                    with_alt[..first].to_string(),
                    rest[..second].to_string(),
                    rest[second + PH.len()..].to_string(),
                )
            } else {
                (with_alt[..first].to_string(), String::new(), rest.to_string())
            }
        };
        let _ = PH2;
        Templates { named, unknown_alt }
    }

    /// The real text for a symbolic leaf `(kind, name, alt)`.
    pub fn render(&self, kind: &str, name: &str, alt: &str) -> String {
        if kind == "custom" {
            return name.to_string();
        }
        if kind == "unknown" && !alt.is_empty() {
            let (a, b, c) = &self.unknown_alt;
            return format!("{}{}{}{}{}", a, name, b, alt, c);
        }
        for (k, p, s) in &self.named {
            if *k == kind {
                return format!("{}{}{}", p, name, s);
            }
        }
        panic!("unknown kind {}", kind)
    }

    /// Classify a real kind-message (no location suffix): (kind, name, alt).
    pub fn classify(&self, msg: &str) -> (String, String, String) {
        // unknown + suggestion first (it extends the plain unknown template)
        let (a, b, c) = &self.unknown_alt;
        if !b.is_empty() && msg.starts_with(a.as_str()) && msg.ends_with(c.as_str()) {
            let mid = &msg[a.len()..msg.len() - c.len()];
            if let Some(i) = mid.find(b.as_str()) {
                return ("unknown".into(), mid[..i].to_string(), mid[i + b.len()..].to_string());
            }
        }
        for (k, p, s) in &self.named {
            if msg.len() >= p.len() + s.len() && msg.starts_with(p.as_str()) && msg.ends_with(s.as_str()) {
                return (k.to_string(), msg[p.len()..msg.len() - s.len()].to_string(), String::new());
            }
        }
        ("custom".into(), msg.to_string(), String::new())
    }
}

/// Replace every symbolic `<kind|name>` / `<kind|name|alt>` in a spec-side string by the real text.
pub fn render_symbolic(t: &Templates, s: &str) -> String {
    let mut out = String::new();
    let mut rest = s;
    while let Some(i) = rest.find('<') {
        out.push_str(&rest[..i]);
        let j = rest[i..].find('>').expect("closing >") + i;
        let inner = &rest[i + 1..j];
        let parts: Vec<&str> = inner.split('|').collect();
        let (k, n, a) = match parts.len() {
            2 => (parts[0], parts[1], ""),
            3 => (parts[0], parts[1], parts[2]),
            _ => panic!("bad symbolic message {}", inner),
        };
        out.push_str(&t.render(k, n, a));
        rest = &rest[j + 1..];
    }
    out.push_str(rest);
    out
}


// ---------------------------------------------------------------------------------------------------
// a panic that escapes every `catch` ends the harness: say where it came from, so that the driver can tell a
// panic of the code under test (a finding) from a broken assumption of the harness itself (a tool error)
static LAST_PANIC: std::sync::Mutex<Option<(String, String)>> = std::sync::Mutex::new(None);

pub fn install_panic_hook() {
    let loud = std::env::var("VH_DEBUG").is_ok();
    std::panic::set_hook(Box::new(move |info| {
        let at = info.location().map(|l| format!("{}:{}", l.file(), l.line())).unwrap_or_default();
        let msg = if let Some(s) = info.payload().downcast_ref::<&str>() { s.to_string() } else if let Some(s) = info.payload().downcast_ref::<String>() { s.clone() } else { String::new() };
        if loud { eprintln!("panic at {}: {}", at, msg); }
        if let Ok(mut g) = LAST_PANIC.lock() { *g = Some((at, msg)); }
    }));
}

/// Run the harness's real main; an escaped panic is reported as the last stdout line and exit status 3.
pub fn run_main(f: fn()) {
    install_panic_hook();
    if std::panic::catch_unwind(f).is_err() {
        let (at, msg) = LAST_PANIC.lock().ok().and_then(|g| g.clone()).unwrap_or_default();
        println!("{}", serde_json::json!({"fatal_panic": msg, "at": at}));
        std::process::exit(3);
    }
}
