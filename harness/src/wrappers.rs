//! Binding of spec/Wrappers.tla: W<T>::from_meta(m) versus T::from_meta(m) on the same item, for real
//! inner targets and for probe implementers (arbitrary override sets), with the specification's law
//! deciding what the wrapper must make of the inner outcome.
use crate::input::Range;
use crate::probes_gen::*;
use crate::routing::{CALLS, MODE};
use crate::util::*;
use darling::util::{Override, PathList, SpannedValue, WithOriginal};
use darling::FromMeta;
use serde_json::{json, Value};
use std::cell::RefCell;
use std::collections::HashMap;
use std::rc::Rc;
use std::sync::Arc;

pub trait Show {
    fn show(&self) -> String;
}
macro_rules! show_debug { ($($t:ty),*) => { $(impl Show for $t { fn show(&self) -> String { format!("{:?}", self) } })* } }
show_debug!(bool, u8, i64, String, char);
macro_rules! show_tokens { ($($t:ty),*) => { $(impl Show for $t { fn show(&self) -> String { quote::ToTokens::to_token_stream(self).to_string() } })* } }
show_tokens!(syn::Path, syn::Ident, syn::Expr, syn::LitStr);
impl Show for PathList {
    fn show(&self) -> String { self.iter().map(|p| quote::ToTokens::to_token_stream(p).to_string()).collect::<Vec<_>>().join(",") }
}
impl Show for HashMap<String, String> {
    fn show(&self) -> String { let mut v: Vec<_> = self.iter().collect(); v.sort(); format!("{:?}", v) }
}
#[derive(Debug, Clone, PartialEq, darling::FromMeta)]
pub struct SRecv { pub a: u8, #[darling(default)] pub b: Option<String> }
#[derive(Debug, Clone, PartialEq, darling::FromMeta)]
pub enum ERecv { Alpha, Beta(u8), Gamma { x: bool } }
show_debug!(SRecv, ERecv);
macro_rules! show_probe { ($($t:ident),*) => { $(impl Show for $t { fn show(&self) -> String { "probe".into() } })* } }
show_probe!(P0, P1, P2, P4, P8, P16, P32, P64, P3, P40, P96, P127, P33, P65, P24, P66);

impl<T: Show> Show for Option<T> { fn show(&self) -> String { match self { Some(x) => format!("Some({})", x.show()), None => "None".into() } } }
impl<T: Show> Show for Box<T> { fn show(&self) -> String { format!("Box({})", (**self).show()) } }
impl<T: Show> Show for Rc<T> { fn show(&self) -> String { format!("Box({})", (**self).show()) } }
impl<T: Show> Show for Arc<T> { fn show(&self) -> String { format!("Box({})", (**self).show()) } }
impl<T: Show> Show for RefCell<T> { fn show(&self) -> String { format!("Box({})", self.borrow().show()) } }
impl<T: Show> Show for SpannedValue<T> { fn show(&self) -> String { format!("Spanned({})", (**self).show()) } }
impl<T: Show> Show for WithOriginal<T, syn::Meta> {
    fn show(&self) -> String { format!("WithOriginal({})", self.parsed.show()) }
}
impl<T: Show> Show for Override<T> { fn show(&self) -> String { match self { Override::Inherit => "Inherit".into(), Override::Explicit(x) => format!("Explicit({})", x.show()) } } }
impl<T: Show> Show for darling::Result<T> {
    fn show(&self) -> String { match self { Ok(x) => format!("Outcome(Ok({}))", x.show()), Err(e) => format!("Outcome(Err({}))", e) } }
}
impl<T: Show> Show for Result<T, syn::Meta> {
    fn show(&self) -> String { match self { Ok(x) => format!("Ok({})", x.show()), Err(m) => format!("Item({})", show_tokens(quote::ToTokens::to_token_stream(m))) } }
}

/// outcome of one conversion: Ok(show, extra span info) or Err(text, span)
pub struct Out { pub ok: Option<String>, pub err: Option<(String, Option<Range>)>, pub none: Option<String>, pub span: Option<Range>, pub original: Option<String>, pub calls: Vec<(String, String)> }

fn run<X: FromMeta + Show>(m: &syn::Meta, extra: impl Fn(&X) -> (Option<Range>, Option<String>)) -> Out {
    CALLS.with(|c| c.borrow_mut().clear());
    let r = X::from_meta(m);
    let calls = CALLS.with(|c| c.borrow().clone());
    let none = X::from_none().map(|v| v.show());
    match r {
        Ok(v) => { let (span, original) = extra(&v); Out { ok: Some(v.show()), err: None, none, span, original, calls } }
        Err(e) => Out { ok: None, err: Some((e.to_string(), e.explicit_span().map(Range::of))), none, span: None, original: None, calls },
    }
}
fn plain<X>(_: &X) -> (Option<Range>, Option<String>) { (None, None) }

/// run wrapper `w` around inner type $t
macro_rules! wrap_one {
    ($w:expr, $t:ty, $m:expr) => {
        match $w {
            "none" => run::<$t>($m, plain),
            "option" => run::<Option<$t>>($m, plain),
            "box" => run::<Box<$t>>($m, plain),
            "rc" => run::<Rc<$t>>($m, plain),
            "arc" => run::<Arc<$t>>($m, plain),
            "refcell" => run::<RefCell<$t>>($m, plain),
            "spanned" => run::<SpannedValue<$t>>($m, |v| (Some(Range::of(v.span())), None)),
            "original" => run::<WithOriginal<$t, syn::Meta>>($m, |v| (None, Some(show_tokens(quote::ToTokens::to_token_stream(&v.original))))),
            "override" => run::<Override<$t>>($m, plain),
            "result" => run::<darling::Result<$t>>($m, plain),
            "resultmeta" => run::<Result<$t, syn::Meta>>($m, plain),
            w => panic!("wrapper {}", w),
        }
    };
}
macro_rules! wrap_two {
    ($w2:expr, $w1:expr, $t:ty, $m:expr) => {
        match $w1 {
            "option" => wrap_one!($w2, Option<$t>, $m),
            "box" => wrap_one!($w2, Box<$t>, $m),
            "spanned" => wrap_one!($w2, SpannedValue<$t>, $m),
            "override" => wrap_one!($w2, Override<$t>, $m),
            "result" => wrap_one!($w2, darling::Result<$t>, $m),
            w => panic!("inner wrapper {}", w),
        }
    };
}
macro_rules! by_inner {
    ($inner:expr, $mac:ident, $($args:expr),*) => {
        match $inner {
            "bool" => $mac!($($args),*, bool), "u8" => $mac!($($args),*, u8), "i64" => $mac!($($args),*, i64), "String" => $mac!($($args),*, String),
            "char" => $mac!($($args),*, char), "Path" => $mac!($($args),*, syn::Path), "Ident" => $mac!($($args),*, syn::Ident), "Expr" => $mac!($($args),*, syn::Expr),
            "LitStr" => $mac!($($args),*, syn::LitStr), "PathList" => $mac!($($args),*, PathList), "SRecv" => $mac!($($args),*, SRecv), "ERecv" => $mac!($($args),*, ERecv),
            "Map" => $mac!($($args),*, HashMap<String, String>),
            "P0" => $mac!($($args),*, P0), "P1" => $mac!($($args),*, P1), "P2" => $mac!($($args),*, P2), "P4" => $mac!($($args),*, P4), "P8" => $mac!($($args),*, P8),
            "P16" => $mac!($($args),*, P16), "P32" => $mac!($($args),*, P32), "P64" => $mac!($($args),*, P64), "P3" => $mac!($($args),*, P3), "P40" => $mac!($($args),*, P40),
            "P96" => $mac!($($args),*, P96), "P127" => $mac!($($args),*, P127), "P33" => $mac!($($args),*, P33), "P65" => $mac!($($args),*, P65), "P24" => $mac!($($args),*, P24), "P66" => $mac!($($args),*, P66),
            x => panic!("inner {}", x),
        }
    };
}
macro_rules! one_m { ($w:expr, $m:expr, $t:ty) => { wrap_one!($w, $t, $m) } }
macro_rules! two_m { ($w2:expr, $w1:expr, $m:expr, $t:ty) => { wrap_two!($w2, $w1, $t, $m) } }

pub const INNERS: [&str; 29] = ["bool", "u8", "i64", "String", "char", "Path", "Ident", "Expr", "LitStr", "PathList", "SRecv", "ERecv", "Map",
    "P0", "P1", "P2", "P4", "P8", "P16", "P32", "P64", "P3", "P40", "P96", "P127", "P33", "P65", "P24", "P66"];
pub const TWO_INNERS: [&str; 8] = ["bool", "u8", "Path", "Expr", "SRecv", "P16", "P40", "P127"];

/// token string in which an invisible group shows (a copy of an item has to keep it)
pub fn show_tokens(ts: proc_macro2::TokenStream) -> String {
    ts.into_iter().map(|t| match t {
        proc_macro2::TokenTree::Group(g) => {
            let (a, b) = match g.delimiter() { proc_macro2::Delimiter::None => ("\u{27e6}", "\u{27e7}"), proc_macro2::Delimiter::Parenthesis => ("(", ")"),
                                               proc_macro2::Delimiter::Bracket => ("[", "]"), proc_macro2::Delimiter::Brace => ("{", "}") };
            format!("{}{}{}", a, show_tokens(g.stream()), b)
        }
        other => other.to_string(),
    }).collect::<Vec<_>>().join(" ")
}

/// concrete items of each abstract form
pub fn items_of(form: &str) -> Vec<&'static str> {
    match form {
        "word" => vec!["name"],
        "list" => vec!["name(a = 1)", "name(a = 1, b = \"x\")", "name(alpha)", "name(gamma(x))", "name(k = \"v\")", "name(a::b, c)", "name()"],
        "nv_bool" => vec!["name = true"],
        "nv_str" => vec!["name = \"x\"", "name = \"7\"", "name = \"a::b\"", "name = \"alpha\"", "name = \"true\""],
        "nv_char" => vec!["name = 'c'"],
        "nv_int" => vec!["name = 3", "name = 300"],
        "nv_path" => vec!["name = foo::bar", "name = x", "name = a + 1"],
        f => panic!("form {}", f),
    }
}

fn parse_meta(text: &str) -> (syn::Meta, Range, Option<Range>) {
    let src = format!("#[root({})]\nstruct Demo;", text);
    let di: syn::DeriveInput = syn::parse_str(&src).unwrap();
    let tokens = match &di.attrs[0].meta { syn::Meta::List(l) => l.tokens.clone(), _ => unreachable!() };
    match crate::input::split(tokens).remove(0) {
        crate::input::Node::Meta(m) => {
            let r = Range::of(syn::spanned::Spanned::span(&m));
            let v = match &m {
                syn::Meta::NameValue(nv) => Some(Range::of(syn::spanned::Spanned::span(&nv.value))),
                syn::Meta::List(l) => if l.tokens.is_empty() { None } else { Some(Range::of(syn::spanned::Spanned::span(&l.tokens))) },
                syn::Meta::Path(p) => Some(Range::of(syn::spanned::Spanned::span(p))),
            };
            (m, r, v)
        }
        _ => unreachable!(),
    }
}

/// what wrapper `w` must make of the inner outcome, per the specification's law
fn expect(w: &str, form: &str, inner: &Out, item_text: &str) -> (Option<String>, Option<(String, Option<Range>)>) {
    let tag = |t: &str| inner.ok.as_ref().map(|v| format!("{}({})", t, v));
    match w {
        "option" => (tag("Some"), inner.err.clone()),
        "box" | "rc" | "arc" | "refcell" => (tag("Box"), inner.err.clone()),
        "spanned" => (tag("Spanned"), inner.err.clone()),
        "original" => (tag("WithOriginal"), inner.err.clone()),
        "override" => if form == "word" { (Some("Inherit".into()), None) } else { (tag("Explicit"), inner.err.clone()) },
        "result" => (Some(match (&inner.ok, &inner.err) { (Some(v), _) => format!("Outcome(Ok({}))", v), (_, Some(e)) => format!("Outcome(Err({}))", e.0), _ => unreachable!() }), None),
        "resultmeta" => (Some(match &inner.ok { Some(v) => format!("Ok({})", v), None => format!("Item({})", item_text) }), None),
        _ => unreachable!(),
    }
}

fn expect_none(w: &str, inner: &Out) -> Option<String> {
    match w {
        "option" => Some("None".into()),
        "box" | "rc" | "arc" | "refcell" => inner.none.as_ref().map(|v| format!("Box({})", v)),
        "result" => inner.none.as_ref().map(|v| format!("Outcome(Ok({}))", v)),
        _ => None,
    }
}

pub fn replay_one(case: &Value) -> (crate::erralg::Outcome, u64) {
    let mut prop = vec![];
    let mut runs = 0u64;
    let chain: Vec<String> = case["chain"].as_array().unwrap().iter().map(|s| s.as_str().unwrap().to_string()).collect();
    let form = case["form"].as_str().unwrap();
    MODE.with(|m| *m.borrow_mut() = ("ok".into(), None));
    for (text, grouped) in items_of(form).into_iter().flat_map(|t| [(t, false), (t, true)]) {
        let (meta, item, value) = parse_meta(text);
        // the same name-value item with its value inside an invisible group (what a macro_rules! `$e:expr` leaves behind)
        let (meta, value) = match (grouped, meta) {
            (true, syn::Meta::NameValue(mut nv)) => {
                nv.value = syn::Expr::Group(syn::ExprGroup { attrs: vec![], group_token: Default::default(), expr: Box::new(nv.value) });
                (syn::Meta::NameValue(nv), None)
            }
            (true, _) => continue,
            (false, m) => (m, value),
        };
        let text = if grouped { format!("{} (value in an invisible group)", text) } else { text.to_string() };
        let text = text.as_str();
        let item_tokens = show_tokens(quote::ToTokens::to_token_stream(&meta));
        let real: Vec<&str> = match chain[0].as_str() { "box" => vec!["box", "rc", "arc", "refcell"], w => vec![w] };
        let inners: &[&str] = if chain.len() == 1 { &INNERS } else { &TWO_INNERS };
        for inner_name in inners {
            for w in &real {
                runs += 1;
                let r = catch(std::panic::AssertUnwindSafe(|| {
                    if chain.len() == 1 {
                        let inner: Out = by_inner!(*inner_name, one_m, "none", &meta);
                        let outer: Out = by_inner!(*inner_name, one_m, *w, &meta);
                        (inner, outer)
                    } else {
                        let w1 = chain[1].as_str();
                        let inner: Out = by_inner!(*inner_name, one_m, w1, &meta);
                        let outer: Out = by_inner!(*inner_name, two_m, *w, w1, &meta);
                        (inner, outer)
                    }
                }));
                let tag = format!("{}<{}{}> <- {}", w, if chain.len() == 2 { format!("{}<", chain[1]) } else { String::new() }, inner_name, text);
                let (inner, outer) = match r { Err(p) => { prop.push(format!("{}: panicked: {}", tag, p)); continue } Ok(x) => x };
                let (eok, eerr) = expect(w, form, &inner, &item_tokens);
                if outer.ok != eok {
                    prop.push(format!("{}: inner gives {:?}/{:?}; the wrapper must give {:?} but gives {:?} (error {:?})", tag, inner.ok, inner.err.as_ref().map(|e| &e.0), eok, outer.ok, outer.err.as_ref().map(|e| &e.0)));
                } else if let (Some(e), None) = (&eerr, &eok) {
                    match &outer.err {
                        Some(o) if o.0 == e.0 => {
                            // same error; its span may only become more specific than the item, never be lost
                            if e.1.is_some() && o.1.is_none() { prop.push(format!("{}: the inner error's span was lost", tag)); }
                        }
                        other => prop.push(format!("{}: must fail with the inner error `{}`, fails with {:?}", tag, e.0, other.as_ref().map(|x| &x.0))),
                    }
                }
                // the probe inner target must have been called exactly as when used alone
                if inner_name.starts_with('P') && !(*w == "override" && form == "word") && inner.calls != outer.calls {
                    prop.push(format!("{}: inner hooks called {:?}, alone {:?}", tag, outer.calls, inner.calls));
                }
                if *w == "spanned" && outer.ok.is_some() {
                    // SpannedValue records the value's own source range
                    match (value, outer.span) {
                        (Some(v), Some(s)) => if v != s { prop.push(format!("{}: SpannedValue span {:?}, the value's range is {:?}", tag, s, v)); },
                        (None, _) => {}         // an empty list has no value tokens: unspecified
                        (Some(_), None) => prop.push(format!("{}: SpannedValue without span", tag)),
                    }
                }
                if *w == "original" && outer.ok.is_some() && outer.original.as_deref() != Some(item_tokens.as_str()) {
                    prop.push(format!("{}: WithOriginal kept `{:?}`, the item is `{}`", tag, outer.original, item_tokens));
                }
                if outer.none != expect_none(w, &inner) {
                    prop.push(format!("{}: absent item gives {:?}, expected {:?} (inner: {:?})", tag, outer.none, expect_none(w, &inner), inner.none));
                }
                let _ = item;
            }
        }
    }
    let _ = json!(null);
    (crate::erralg::Outcome { prop, model: vec![] }, runs)
}
