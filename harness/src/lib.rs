pub mod util;
pub mod erralg;
