pub mod util;
pub mod erralg;
pub mod accum;
