pub mod util;
pub mod erralg;
pub mod accum;
pub mod sym;
pub mod input;
pub mod recv;
pub mod maps;
pub mod body;
