//! Binding of spec/Maps.tla to the five HashMap / BTreeMap instantiations of from_meta.rs.
use crate::input::*;
use crate::recv::{leaves_of, LeafObs, TEMPLATES};
use crate::util::*;
use darling::ast::NestedMeta;
use darling::FromMeta;
use serde_json::{json, Value};
use std::collections::{BTreeMap, HashMap};

pub trait MapV: FromMeta {
    const NAME: &'static str;
    fn good(j: usize) -> String;
    fn bad(j: usize) -> String;
    fn show(&self) -> String;
}
impl MapV for bool {
    const NAME: &'static str = "bool";
    fn good(j: usize) -> String { if j % 2 == 0 { " = true".into() } else { " = \"false\"".into() } }
    fn bad(_j: usize) -> String { " = 3".into() }
    fn show(&self) -> String { self.to_string() }
}
impl MapV for u8 {
    const NAME: &'static str = "u8";
    fn good(j: usize) -> String { format!(" = {}", 5 + j) }
    fn bad(j: usize) -> String { if j % 2 == 0 { " = 300".into() } else { " = \"x\"".into() } }
    fn show(&self) -> String { self.to_string() }
}
impl MapV for String {
    const NAME: &'static str = "String";
    fn good(j: usize) -> String { format!(" = \"s{}\"", j) }
    fn bad(_j: usize) -> String { " = 3".into() }
    fn show(&self) -> String { self.clone() }
}
impl MapV for syn::Expr {
    const NAME: &'static str = "Expr";
    fn good(j: usize) -> String { format!(" = x + {}", j) }
    fn bad(_j: usize) -> String { " = \"x +\"".into() }
    fn show(&self) -> String { quote::ToTokens::to_token_stream(self).to_string() }
}
impl MapV for BTreeMap<String, bool> {
    const NAME: &'static str = "BTreeMap<String,bool>";
    fn good(j: usize) -> String { if j % 2 == 0 { "(a = true, b)".into() } else { "()".into() } }
    // one problem inside, the wrong form, several problems inside (a bundle that has to stay under the outer key)
    fn bad(j: usize) -> String { match j % 3 { 0 => "(a = 3, c = 4, b, a)".into(), 1 => " = 3".into(), _ => "(a = 3, b)".into() } }
    fn show(&self) -> String { format!("{:?}", self) }
}

pub trait MapK: Sized {
    fn show(&self) -> String;
}
impl MapK for String { fn show(&self) -> String { self.clone() } }
impl MapK for syn::Ident { fn show(&self) -> String { self.to_string() } }
impl MapK for syn::Path {
    fn show(&self) -> String { quote::ToTokens::to_token_stream(self).to_string().replace(' ', "") }
}

pub struct MapObs {
    pub ok: Option<Vec<(String, String)>>, // sorted entries
    pub leaves: Vec<LeafObs>,
    pub panic: Option<String>,
    pub nerr: usize,
}

fn render<V: MapV>(items: &[Value]) -> String {
    let body: Vec<String> = items
        .iter()
        .enumerate()
        .map(|(j, it)| {
            if it["k"] == "lit" {
                format!("\"lit{}\"", j)
            } else {
                format!("{}{}", it["key"].as_str().unwrap(), if it["val"] == "good" { V::good(j) } else { V::bad(j) })
            }
        })
        .collect();
    format!("#[root({})]\nstruct Demo;", body.join(", "))
}

fn run<M, K, V, I>(src: &str, into: impl Fn(M) -> I) -> (MapObs, Vec<syn::Attribute>)
where
    M: FromMeta,
    K: MapK,
    V: MapV,
    I: Iterator<Item = (K, V)>,
{
    let di: syn::DeriveInput = syn::parse_str(src).unwrap_or_else(|e| panic!("unparsable {:?}: {}", src, e));
    let attrs = di.attrs.clone();
    let r = catch(std::panic::AssertUnwindSafe(|| {
        let tokens = match &di.attrs[0].meta { syn::Meta::List(l) => l.tokens.clone(), _ => unreachable!() };
        let items = NestedMeta::parse_meta_list(tokens)?;
        M::from_list(&items)
    }));
    let obs = match r {
        Err(p) => MapObs { ok: None, leaves: vec![], panic: Some(p), nerr: 0 },
        Ok(Ok(m)) => {
            let mut e: Vec<(String, String)> = into(m).map(|(k, v)| (k.show(), v.show())).collect();
            e.sort();
            MapObs { ok: Some(e), leaves: vec![], panic: None, nerr: 0 }
        }
        Ok(Err(e)) => {
            let n = e.len();
            MapObs { ok: None, leaves: TEMPLATES.with(|t| leaves_of(t, e)), panic: None, nerr: n }
        }
    };
    (obs, attrs)
}

/// The element type's own value for item j (the oracle C14 names), converted alone.
fn element_value<V: MapV>(attrs: &[syn::Attribute], j: usize) -> Option<String> {
    let tokens = match &attrs[0].meta { syn::Meta::List(l) => l.tokens.clone(), _ => return None };
    let nodes = split(tokens);
    match nodes.get(j) {
        Some(Node::Meta(m)) => V::from_meta(m).ok().map(|v| v.show()),
        _ => None,
    }
}

fn check(case: &Value, obs: &MapObs, attrs: &[syn::Attribute], elem: &dyn Fn(usize) -> Option<String>, tag: &str, prop: &mut Vec<String>, model: &mut Vec<String>) {
    let exp = &case["expect"];
    if let Some(p) = &obs.panic {
        prop.push(format!("{}: panicked: {}", tag, p));
        return;
    }
    let clean = exp["clean"].as_bool().unwrap();
    if clean {
        match &obs.ok {
            None => prop.push(format!("{}: all keys distinct and convertible, all values convertible, yet rejected: [{}]", tag, obs.leaves.iter().map(|l| l.text.clone()).collect::<Vec<_>>().join("; "))),
            Some(entries) => {
                let items = case["items"].as_array().unwrap();
                if entries.len() != items.len() {
                    prop.push(format!("{}: {} entries for {} items", tag, entries.len(), items.len()));
                }
                let mut want: Vec<(String, String)> = exp["entries"].as_array().unwrap().iter().map(|e| {
                    let j = e["item"].as_u64().unwrap() as usize - 1;
                    (e["key"].as_str().unwrap().to_string(), elem(j).unwrap_or_else(|| "<element type rejected a 'good' value>".into()))
                }).collect();
                want.sort();
                if &want != entries {
                    prop.push(format!("{}: entries expected {:?} observed {:?}", tag, want, entries));
                }
            }
        }
        return;
    }
    let ms = exp["mistakes"].as_array().unwrap();
    if obs.ok.is_some() {
        prop.push(format!("{}: list with {} mistake(s) accepted as {:?}", tag, ms.len(), obs.ok));
        return;
    }
    let mut used = vec![false; obs.leaves.len()];
    let mut missing = vec![];
    for m in ms {
        let cls = m["cls"].as_str().unwrap();
        let n = m["n"].as_str().unwrap();
        let loc: Vec<String> = m["loc"].as_array().unwrap().iter().map(|s| s.as_str().unwrap().to_string()).collect();
        let hit = obs.leaves.iter().enumerate().position(|(j, l)| {
            !used[j] && match cls {
                "dup" => l.kind == "dup" && l.name == n && l.path == loc,
                // "other": a literal item, a bad key, or a bad value located under its key (a nested element
                // type may add deeper segments of its own)
                _ => l.kind != "dup" && l.path.len() >= loc.len() && l.path[..loc.len()] == loc[..] && (loc.is_empty() == l.path.is_empty() || !loc.is_empty()),
            }
        });
        match hit {
            Some(j) => used[j] = true,
            None => missing.push(format!("{}({}) at {:?}", cls, n, loc)),
        }
    }
    // a nested element type may report several leaves for one bad value: extra leaves are accepted only
    // when they sit under the key of a bad value
    let extra: Vec<String> = (0..obs.leaves.len()).filter(|j| !used[*j]).filter(|j| {
        let l = &obs.leaves[*j];
        !ms.iter().any(|m| m["cls"] == "other" && !m["loc"].as_array().unwrap().is_empty()
            && !l.path.is_empty() && l.path[0] == m["loc"][0].as_str().unwrap())
    }).map(|j| obs.leaves[j].text.clone()).collect();
    if !missing.is_empty() || !extra.is_empty() {
        prop.push(format!("{}: not reported: [{}]; unexplained: [{}]", tag, missing.join(", "), extra.join(", ")));
    }
    // model level: order and kinds of the operational prediction (scalar element types only)
    let el = exp["leaves"].as_array().unwrap();
    if el.len() == obs.leaves.len() {
        for (e, o) in el.iter().zip(obs.leaves.iter()) {
            let eloc: Vec<String> = e["loc"].as_array().unwrap().iter().map(|s| s.as_str().unwrap().to_string()).collect();
            let kind_ok = match e["k"].as_str().unwrap() { "dup" => o.kind == "dup", "format" => o.kind == "format", _ => o.kind != "dup" };
            if !kind_ok || (o.path.len() < eloc.len() || o.path[..eloc.len()] != eloc[..]) {
                model.push(format!("{}: order/kind: predicted {}({}) at {:?} observed `{}`", tag, e["k"], e["n"], eloc, o.text));
            }
        }
    }
    let _ = attrs;
}

fn same(a: &MapObs, b: &MapObs) -> bool {
    a.ok == b.ok && a.panic == b.panic && a.leaves.len() == b.leaves.len()
        && a.leaves.iter().zip(b.leaves.iter()).all(|(x, y)| x.text == y.text && x.span == y.span)
}

fn one_v<V: MapV + 'static>(case: &Value, prop: &mut Vec<String>, model: &mut Vec<String>) {
    let items = case["items"].as_array().unwrap();
    let src = render::<V>(items);
    let kind = case["kind"].as_str().unwrap();
    match kind {
        "string" => {
            let (h, attrs) = run::<HashMap<String, V>, String, V, _>(&src, |m| m.into_iter());
            let (b, _) = run::<BTreeMap<String, V>, String, V, _>(&src, |m| m.into_iter());
            let elem = |j: usize| element_value::<V>(&attrs, j);
            check(case, &h, &attrs, &elem, &format!("HashMap<String,{}> {}", V::NAME, src.lines().next().unwrap()), prop, model);
            check(case, &b, &attrs, &elem, &format!("BTreeMap<String,{}> {}", V::NAME, src.lines().next().unwrap()), prop, model);
            if !same(&h, &b) { prop.push(format!("hash and ordered map disagree on {}", src.lines().next().unwrap())); }
        }
        "ident" => {
            let (h, attrs) = run::<HashMap<syn::Ident, V>, syn::Ident, V, _>(&src, |m| m.into_iter());
            let (b, _) = run::<BTreeMap<syn::Ident, V>, syn::Ident, V, _>(&src, |m| m.into_iter());
            let elem = |j: usize| element_value::<V>(&attrs, j);
            check(case, &h, &attrs, &elem, &format!("HashMap<Ident,{}> {}", V::NAME, src.lines().next().unwrap()), prop, model);
            check(case, &b, &attrs, &elem, &format!("BTreeMap<Ident,{}> {}", V::NAME, src.lines().next().unwrap()), prop, model);
            if !same(&h, &b) { prop.push(format!("hash and ordered map disagree on {}", src.lines().next().unwrap())); }
        }
        "path" => {
            let (h, attrs) = run::<HashMap<syn::Path, V>, syn::Path, V, _>(&src, |m| m.into_iter());
            let elem = |j: usize| element_value::<V>(&attrs, j);
            check(case, &h, &attrs, &elem, &format!("HashMap<Path,{}> {}", V::NAME, src.lines().next().unwrap()), prop, model);
        }
        k => panic!("key kind {}", k),
    }
}

pub fn replay_one(case: &Value, vtypes: usize) -> crate::erralg::Outcome {
    let mut prop = vec![];
    let mut model = vec![];
    one_v::<bool>(case, &mut prop, &mut model);
    if vtypes > 1 {
        one_v::<u8>(case, &mut prop, &mut model);
        one_v::<String>(case, &mut prop, &mut model);
        one_v::<syn::Expr>(case, &mut prop, &mut model);
        one_v::<BTreeMap<String, bool>>(case, &mut prop, &mut model);
    }
    crate::erralg::Outcome { prop, model }
}

pub fn source_of(case: &Value) -> String {
    render::<bool>(case["items"].as_array().unwrap()).lines().next().unwrap().to_string()
}
pub fn _unused() -> Value { json!(null) }
