//! Abstract inputs (attrs / items as JSON) -> source text -> syn, and position -> line/column range.
use proc_macro2::Span;
use serde_json::Value;
use syn::spanned::Spanned;

pub fn lit_text(code: &str) -> String {
    let (k, body) = code.split_at(2);
    match k {
        "s:" => format!("{:?}", body),
        "i:" | "f:" | "b:" | "p:" | "x:" => body.to_string(),
        "c:" => format!("'{}'", body),
        _ => panic!("literal code {}", code),
    }
}

pub fn item_text(it: &Value) -> String {
    if it["k"] == "lit" {
        return lit_text(it["val"].as_str().unwrap());
    }
    let name = it["name"].as_str().unwrap();
    match it["form"].as_str().unwrap() {
        "word" => name.to_string(),
        "nv" => format!("{} = {}", name, lit_text(it["val"].as_str().unwrap())),
        "list" => format!("{}({})", name, items_text(&it["items"])),
        "junk" => format!("{}(a b ; =>)", name),
        f => panic!("form {}", f),
    }
}

pub fn items_text(items: &Value) -> String {
    items.as_array().unwrap().iter().map(item_text).collect::<Vec<_>>().join(", ")
}

pub fn attr_text(a: &Value) -> String {
    let path = a["path"].as_str().unwrap();
    match a["form"].as_str().unwrap() {
        "list" => format!("#[{}({})]", path, items_text(&a["items"])),
        "word" => format!("#[{}]", path),
        "nv" => format!("#[{} = \"v\"]", path),
        "junk" => format!("#[{}(a b ; =>)]", path),
        f => panic!("attr form {}", f),
    }
}

/// One attribute per line, so that line numbers identify attributes.
pub fn attrs_text(attrs: &Value) -> String {
    attrs.as_array().unwrap().iter().map(attr_text).collect::<Vec<_>>().join("\n")
}

#[derive(Clone, Copy, Debug, PartialEq, Eq, PartialOrd, Ord)]
pub struct Range { pub l1: usize, pub c1: usize, pub l2: usize, pub c2: usize }
impl Range {
    pub fn of(s: Span) -> Range {
        Range { l1: s.start().line, c1: s.start().column, l2: s.end().line, c2: s.end().column }
    }
    pub fn contains(&self, o: &Range) -> bool {
        (self.l1, self.c1) <= (o.l1, o.c1) && (o.l2, o.c2) <= (self.l2, self.c2)
    }
    pub fn json(&self) -> Value { serde_json::json!([self.l1, self.c1, self.l2, self.c2]) }
}

/// The harness's own reading of a nested-meta list (independent of darling's parser).
pub enum Node { Lit(syn::Lit), Meta(syn::Meta) }
impl syn::parse::Parse for Node {
    fn parse(input: syn::parse::ParseStream) -> syn::Result<Self> {
        if input.peek(syn::Lit) && !(input.peek(syn::LitBool) && input.peek2(syn::Token![=])) {
            input.parse().map(Node::Lit)
        } else {
            input.parse().map(Node::Meta)
        }
    }
}
pub fn split(tokens: proc_macro2::TokenStream) -> Vec<Node> {
    use syn::parse::Parser;
    let p = syn::punctuated::Punctuated::<Node, syn::Token![,]>::parse_terminated;
    p.parse2(tokens).map(|x| x.into_iter().collect()).unwrap_or_default()
}

/// Range of the node at `pos` (1-based: attribute, item, nested item, ...) and `part`.
pub fn resolve(attrs: &[syn::Attribute], pos: &[u64], part: &str) -> Option<Range> {
    let a = attrs.get((*pos.first()? - 1) as usize)?;
    if pos.len() == 1 {
        return Some(match part {
            "attr" => Range::of(a.span()),
            _ => Range::of(a.meta.span()),
        });
    }
    let mut nodes = match &a.meta { syn::Meta::List(l) => split(l.tokens.clone()), _ => return None };
    let mut cur: Option<Node> = None;
    for (d, ix) in pos[1..].iter().enumerate() {
        let i = (*ix - 1) as usize;
        if i >= nodes.len() { return None; }
        let n = nodes.swap_remove(i);
        if d + 2 < pos.len() {
            nodes = match &n { Node::Meta(syn::Meta::List(l)) => split(l.tokens.clone()), _ => return None };
        }
        cur = Some(n);
    }
    let n = cur?;
    Some(match (&n, part) {
        (Node::Lit(l), _) => Range::of(l.span()),
        (Node::Meta(m), "name") => Range::of(m.path().span()),
        (Node::Meta(syn::Meta::NameValue(nv)), "value") => Range::of(nv.value.span()),
        (Node::Meta(m), _) => Range::of(m.span()),
    })
}
