//! Binding of spec/Body.tla: member-level receivers, projections of magic fields, input rendering.
use crate::sym::Val;
use darling::ast::{Data, Fields, GenericParam, Generics};
use darling::util::WithOriginal;
pub use serde_json::{json, Value};

pub trait Parts {
    fn parts(&self) -> Value;
}

pub fn toks<T: quote::ToTokens>(t: &T) -> String {
    t.to_token_stream().to_string()
}
/// token string with blanks removed and trailing commas before a closing delimiter dropped
pub fn norm(s: &str) -> String {
    let s: String = s.chars().filter(|c| !c.is_whitespace()).collect();
    s.replace(",}", "}").replace(",)", ")")
}
pub fn attrs_json(a: &[syn::Attribute]) -> Value {
    json!(a.iter().map(toks).collect::<Vec<_>>())
}

#[derive(Debug, Clone, darling::FromField)]
#[darling(attributes(f), forward_attrs)]
pub struct FldRecv {
    pub ident: Option<syn::Ident>,
    pub vis: syn::Visibility,
    pub ty: syn::Type,
    pub attrs: Vec<syn::Attribute>,
    pub need: Val,
}

#[derive(Debug, Clone, darling::FromVariant)]
#[darling(attributes(f), forward_attrs)]
pub struct VarRecv {
    pub ident: syn::Ident,
    pub discriminant: Option<syn::Expr>,
    pub fields: Fields<FldRecv>,
    pub attrs: Vec<syn::Attribute>,
    pub need: Val,
}

#[derive(Debug, Clone, darling::FromTypeParam)]
#[darling(attributes(f), forward_attrs)]
pub struct TpRecv {
    pub ident: syn::Ident,
    pub bounds: Vec<syn::TypeParamBound>,
    pub default: Option<syn::Type>,
    pub attrs: Vec<syn::Attribute>,
}

pub struct AttrsW(pub Vec<syn::Attribute>);
pub fn attrs_with(a: Vec<syn::Attribute>) -> darling::Result<AttrsW> {
    Ok(AttrsW(a))
}
pub fn data_with(d: &syn::Data) -> darling::Result<Data<VarRecv, FldRecv>> {
    Data::try_from(d)
}

fn fld_json(f: &FldRecv) -> Value {
    json!({"ident": f.ident.as_ref().map(|i| i.to_string()), "vis": toks(&f.vis), "ty": toks(&f.ty), "attrs": attrs_json(&f.attrs)})
}
fn style_s(s: darling::ast::Style) -> &'static str {
    match s { darling::ast::Style::Struct => "named", darling::ast::Style::Tuple => "tuple", darling::ast::Style::Unit => "unit" }
}
pub fn data_json(d: &Data<VarRecv, FldRecv>) -> Value {
    match d {
        Data::Struct(f) => json!({"kind": "struct", "style": style_s(f.style), "entries": f.fields.iter().map(fld_json).collect::<Vec<_>>()}),
        Data::Enum(vs) => json!({"kind": "enum", "style": "", "entries": vs.iter().map(|v| json!({
            "ident": v.ident.to_string(), "discriminant": v.discriminant.as_ref().map(toks), "style": style_s(v.fields.style),
            "attrs": attrs_json(&v.attrs), "fields": v.fields.fields.iter().map(fld_json).collect::<Vec<_>>()})).collect::<Vec<_>>()}),
    }
}

pub fn gen_syn(g: &syn::Generics) -> Value {
    json!({"params": g.params.iter().map(toks).collect::<Vec<_>>(), "where": g.where_clause.as_ref().map(toks)})
}
pub fn gen_ast(g: &Generics<GenericParam<TpRecv>>) -> Value {
    let params: Vec<String> = g.params.iter().map(|p| match p {
        GenericParam::Type(t) => {
            // re-assemble the type parameter from the parts the receiver was handed
            let mut s = String::new();
            for a in &t.attrs { s.push_str(&toks(a)); s.push(' '); }
            s.push_str(&t.ident.to_string());
            if !t.bounds.is_empty() { s.push_str(" : "); s.push_str(&t.bounds.iter().map(toks).collect::<Vec<_>>().join(" + ")); }
            if let Some(d) = &t.default { s.push_str(" = "); s.push_str(&toks(d)); }
            s
        }
        GenericParam::Lifetime(l) => toks(l),
        GenericParam::Const(c) => toks(c),
    }).collect();
    json!({"params": params, "where": g.where_clause.as_ref().map(toks)})
}
pub fn gen_wo(g: &WithOriginal<Generics<GenericParam<TpRecv>>, syn::Generics>) -> Value {
    let a = gen_ast(&g.parsed);
    let o = gen_syn(&g.original);
    json!({"params": a["params"], "where": a["where"], "original": o})
}

// ------------------------------------------------------------------------------------------- input rendering

pub const VIS: [&str; 5] = ["", "pub", "pub(crate)", "pub(in crate::a)", "pub(super)"];
pub const TYS: [&str; 7] = ["u8", "Vec<String>", "&'static str", "Option<Box<dyn Fn(u8) -> u8>>", "[u8; 4]", "(u8)", "((fn(u8) -> u8))"];     // incl. types written in parentheses
pub const GENS: [(&str, &str); 5] = [
    ("", ""),
    ("<T>", ""),
    ("<'a, T: Clone + 'a, const N: usize>", "where T: Default, [u8; N]: Sized"),
    ("<#[g(x)] T: Iterator<Item = u8> = std::vec::IntoIter<u8>, U>", "where U: 'static"),
    ("", "where Vec<u8>: Clone"),
];

fn field_src(f: &Value, k: usize, named: bool, salt: usize) -> String {
    // a failing member fails in one of three ways: the required item is absent (an unspanned error), its value is of the
    // wrong kind (a spanned error one level deeper), or an unknown item stands in its place (a spanned error at the member)
    let attr = if f["bad"] == true { ["#[doc = \"plain\"] ", "#[f(need = 5)] ", "#[f(nope)] #[f(need = \"x\")] "][(salt + k) % 3].to_string() } else { format!("#[f(need = \"n{}\")] #[allow(dead_code)] ", k) };
    let vis = VIS[(salt + k) % VIS.len()];
    let ty = TYS[(salt + 2 * k) % TYS.len()];
    if named { format!("{}{} {}: {}", attr, vis, f["name"].as_str().unwrap(), ty) } else { format!("{}{} {}", attr, vis, ty) }
}

/// Source of a DeriveInput with the given abstract body; `salt` varies the opaque parts.
pub fn render(body: &Value, salt: usize) -> String {
    let vis = VIS[salt % VIS.len()];
    let (gp, gw) = GENS[salt % GENS.len()];
    let head = format!("#[doc = \"d\"]\n#[f()]\n#[keep(me, \"x\")]\n{} ", vis);
    let ms = body["ms"].as_array().unwrap();
    match body["kind"].as_str().unwrap() {
        "struct" => match body["style"].as_str().unwrap() {
            "unit" => format!("{}struct Demo{} {};", head, gp, gw),
            "named" => format!("{}struct Demo{} {} {{ {} }}", head, gp, gw, ms.iter().enumerate().map(|(k, f)| field_src(f, k, true, salt)).collect::<Vec<_>>().join(", ")),
            _ => format!("{}struct Demo{}({}) {};", head, gp, ms.iter().enumerate().map(|(k, f)| field_src(f, k, false, salt)).collect::<Vec<_>>().join(", "), gw),
        },
        "enum" => {
            let vs: Vec<String> = ms.iter().enumerate().map(|(j, v)| {
                let attr = if v["bad"] == true { ["", "#[f(need = 5)] ", "#[f(nope)] #[f(need = \"x\")] "][(salt + j) % 3].to_string() } else { format!("#[f(need = \"v{}\")] ", j) };
                let fs = v["fs"].as_array().unwrap();
                let disc = if v["disc"] == true { format!(" = {}", 3 + j) } else { String::new() };
                let body = match v["style"].as_str().unwrap() {
                    "unit" => disc,
                    "named" => format!(" {{ {} }}{}", fs.iter().enumerate().map(|(k, f)| field_src(f, k, true, salt + j)).collect::<Vec<_>>().join(", "), disc),
                    _ => format!("({}){}", fs.iter().enumerate().map(|(k, f)| field_src(f, k, false, salt + j)).collect::<Vec<_>>().join(", "), disc),
                };
                format!("{}{}{}", attr, v["name"].as_str().unwrap(), body)
            }).collect();
            format!("{}enum Demo{} {} {{ {} }}", head, gp, gw, vs.join(", "))
        }
        _ => format!("{}union Demo{} {} {{ a: u8, b: u16 }}", head, gp, gw),
    }
}
