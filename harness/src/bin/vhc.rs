//! `vhc`: replay of Receiver.tla behaviours through the derived receivers of the generated corpus.
#![allow(unused_imports, dead_code, non_snake_case, unused_variables, unused_mut)]
use serde_json::{json, Value};
use vh::input::attrs_text;
use vh::util::*;

include!(concat!(env!("CARGO_MANIFEST_DIR"), "/gen/corpus_gen.rs"));
mod shapes_gen {
    include!(concat!(env!("CARGO_MANIFEST_DIR"), "/gen/shapes_gen.rs"));
}

fn body_source(b: &Value) -> String {
    let fields = |style: &str| match style {
        "named" => " { a: u8 }".to_string(),
        "tuple" => "(u8, u16)".to_string(),
        "newtype" => "(u8)".to_string(),
        _ => String::new(),
    };
    match b["kind"].as_str().unwrap() {
        "struct" => { let f = fields(b["style"].as_str().unwrap()); if f.ends_with('}') { format!("struct D{}", f) } else { format!("struct D{};", f) } }
        "variant" => format!("enum D {{ V{} }}", fields(b["style"].as_str().unwrap())),
        "enum" => format!("enum D {{ {} }}", b["vs"].as_array().unwrap().iter().enumerate().map(|(i, s)| format!("V{}{}", i, fields(s.as_str().unwrap()))).collect::<Vec<_>>().join(", ")),
        "union" => "union D { a: u8, b: u16 }".to_string(),
        k => panic!("body kind {}", k),
    }
}

fn replay_shapes(path: &str) {
    use darling::util::{Shape, ShapeSet};
    let mut prop: Vec<Value> = vec![];
    let mut nprop = 0u64;
    let mut skipped = 0u64;
    let cases = read_tagged(path, "REPLAY");
    for c in &cases {
        let mut ws: Vec<String> = c["words"].as_array().unwrap().iter().map(|s| s.as_str().unwrap().to_string()).collect();
        ws.sort();
        let key = ws.join(",");
        let src = body_source(&c["body"]);
        let di: syn::DeriveInput = syn::parse_str(&src).unwrap_or_else(|e| panic!("unparsable body {:?}: {}", src, e));
        let r = catch(std::panic::AssertUnwindSafe(|| {
            if c["body"]["kind"] == "variant" {
                match &di.data { syn::Data::Enum(e) => shapes_gen::shape_variant(&key, &e.variants[0]), _ => unreachable!() }
            } else {
                shapes_gen::shape_di(&key, &di)
            }
        }));
        let why = match r {
            Err(p) => Some(format!("panicked: {}", p)),
            Ok(None) => { skipped += 1; None }
            Ok(Some(res)) => {
                let eok = c["expect"]["ok"].as_bool().unwrap();
                let en = c["expect"]["n"].as_u64().unwrap() as usize;
                match res {
                    Ok(()) if eok => None,
                    Ok(()) => Some(format!("accepted, the table rejects it with {} error(s)", en)),
                    Err(e) if eok => Some(format!("rejected ({}), the table accepts it", e)),
                    Err(e) => if e.len() == en { None } else { Some(format!("{} error leaves, expected {} (one per non-conforming variant): {}", e.len(), en, e)) },
                }
            }
        };
        if let Some(w) = why {
            nprop += 1;
            if prop.len() < 40 { prop.push(json!({"case": c, "why": [format!("supports({}) on `{}`: {}", key, src, w)], "key": format!("shapes:{}:{}", key, src)})); }
        }
    }
    // the stand-alone ShapeSet API
    let api = read_tagged(path, "API");
    let sh = |s: &str| match s { "named" => Shape::Named, "tuple" => Shape::Tuple, "newtype" => Shape::Newtype, _ => Shape::Unit };
    for a in &api {
        let set = ShapeSet::new(a["set"].as_array().unwrap().iter().map(|s| sh(s.as_str().unwrap())));
        let s = sh(a["shape"].as_str().unwrap());
        let got = (set.contains(&s), set.check(&s).is_ok(), set.is_empty());
        let want = (a["contains"].as_bool().unwrap(), a["contains"].as_bool().unwrap(), a["empty"].as_bool().unwrap());
        if got != want {
            nprop += 1;
            prop.push(json!({"case": a, "why": [format!("ShapeSet{} vs {}: (contains, check, is_empty) = {:?}, expected {:?}", a["set"], a["shape"], got, want)], "key": format!("shapeset:{}:{}", a["set"], a["shape"])}));
        }
    }
    let samples: Vec<Value> = cases.iter().step_by((cases.len() / 3).max(1)).take(3).map(|c| json!({"words": c["words"], "body": body_source(&c["body"]), "expect": c["expect"]})).collect();
    println!("{}", json!({"cases": cases.len() + api.len(), "prop_mismatch": nprop, "model_drift": 0, "prop": prop, "model": [], "samples": samples,
                           "counts": {"derived_cases": cases.len() as u64 - skipped, "api_cases": api.len()}}));
}

/// attributes are rendered one per line; an element wrapper puts them after a first line
fn raw_line_offset(raw: &RawOutcome, src: &str) -> usize {
    match raw.attrs.first() {
        Some(a) => {
            let first_line = syn::spanned::Spanned::span(a).start().line;
            let _ = src;
            first_line - 1
        }
        None => 0,
    }
}

fn main() {
    std::panic::set_hook(Box::new(|_| {}));
    let args: Vec<String> = std::env::args().collect();
    if args.len() >= 3 && args[1] == "replay-shapes" {
        replay_shapes(&args[2]);
        return;
    }
    if args.len() < 3 || args[1] != "replay" {
        eprintln!("usage: vhc replay <tlc-output | cases.ndjson>");
        std::process::exit(2);
    }
    let cases = if args[2].ends_with(".ndjson") { read_ndjson(&args[2]) } else { read_tagged(&args[2], "REPLAY") };
    let mut counts: std::collections::BTreeMap<String, u64> = Default::default();
    let mut prop: Vec<Value> = vec![];
    let mut model: Vec<Value> = vec![];
    let mut nprop = 0u64;
    let mut nmodel = 0u64;
    let mut byclass: std::collections::BTreeMap<String, u64> = Default::default();
    let mut distinct = std::collections::HashSet::new();
    for c in &cases {
        let did = c["did"].as_u64().unwrap();
        let src = attrs_text(&c["attrs"]);
        let raw = dispatch(did, &src);
        let mut mm = vh::recv::compare(&c["expect"], &raw);
        // C17 soundness, behaviourally: writing the suggested name instead must no longer be rejected as unknown
        for l in &raw.leaves {
            if l.kind == "unknown" && !l.alt.is_empty() {
                if let Some(sp) = l.span {
                    let lines: Vec<&str> = src.split('\n').collect();
                    // spans are relative to the rendered element: attributes start on line 2 for wrapped elements
                    if sp.l1 == sp.l2 {
                        let off = if c["trait_elem"].is_null() { 0 } else { 0 };
                        let _ = off;
                        let li = sp.l1 - 1 - raw_line_offset(&raw, &src);
                        if li < lines.len() {
                            let line = lines[li];
                            let chars: Vec<char> = line.chars().collect();
                            if sp.c2 <= chars.len() {
                                let item: String = chars[sp.c1..sp.c2].iter().collect();
                                if item.starts_with(l.name.as_str()) {
                                    let fixed_item = format!("{}{}", l.alt, &item[l.name.len()..]);
                                    let mut nl: Vec<String> = lines.iter().map(|s| s.to_string()).collect();
                                    nl[li] = format!("{}{}{}", chars[..sp.c1].iter().collect::<String>(), fixed_item, chars[sp.c2..].iter().collect::<String>());
                                    let again = dispatch(did, &nl.join("\n"));
                                    if again.leaves.iter().any(|x| x.kind == "unknown" && x.name == l.alt && x.path == l.path) {
                                        mm.push(vh::recv::Mismatch { class: "alt", why: format!("`{}` was suggested for `{}` but is itself rejected as unknown at {:?}", l.alt, l.name, l.path) });
                                    }
                                    *counts.entry("suggestions_retried".into()).or_default() += 1;
                                }
                            }
                        }
                    }
                }
            }
        }
        *counts.entry(if c["expect"]["ok"] == true { "expected_ok".into() } else { "expected_err".into() }).or_default() += 1;
        if !c["expect"]["ok"].as_bool().unwrap() {
            *counts.entry(format!("err_leaves_{}", c["expect"]["leaves"].as_array().unwrap().len().min(4))).or_default() += 1;
        }
        distinct.insert((did, src.clone()));
        let mut p: Vec<Value> = vec![];
        let mut m: Vec<String> = vec![];
        for x in mm {
            if x.class == "model" { m.push(x.why) } else {
                *byclass.entry(x.class.to_string()).or_default() += 1;
                p.push(json!({"class": x.class, "why": x.why}));
            }
        }
        if !p.is_empty() {
            nprop += 1;
            if prop.len() < 400 {
                let classes: Vec<String> = p.iter().map(|x| x["class"].as_str().unwrap().to_string()).collect();
                let why: Vec<String> = p.iter().map(|x| format!("[{}] {}", x["class"].as_str().unwrap(), x["why"].as_str().unwrap())).collect();
                prop.push(json!({"case": c, "classes": classes, "why": why, "source": src, "key": format!("recv:d{}:{}", did, src.replace('\n', " "))}));
            }
        }
        if !m.is_empty() {
            nmodel += 1;
            if model.len() < 5 { model.push(json!({"case": c, "why": m, "source": src})); }
        }
    }
    let samples: Vec<Value> = cases.iter().step_by((cases.len() / 3).max(1)).take(3)
        .map(|c| json!({"did": c["did"], "source": attrs_text(&c["attrs"]), "expect": c["expect"]})).collect();
    println!("{}", json!({"cases": cases.len(), "prop_mismatch": nprop, "model_drift": nmodel, "prop": prop, "model": model,
                           "samples": samples, "counts": counts, "by_class": byclass, "distinct": distinct.len()}));
}
