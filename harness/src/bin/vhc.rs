//! `vhc`: replay of Receiver.tla behaviours through the derived receivers of the generated corpus.
#![allow(unused_imports, dead_code, non_snake_case, unused_variables, unused_mut)]
use serde_json::{json, Value};
use vh::input::attrs_text;
use vh::util::*;

include!(concat!(env!("CARGO_MANIFEST_DIR"), "/gen/corpus_gen.rs"));
mod shapes_gen {
    include!(concat!(env!("CARGO_MANIFEST_DIR"), "/gen/shapes_gen.rs"));
}

mod body_gen {
    include!(concat!(env!("CARGO_MANIFEST_DIR"), "/gen/body_gen.rs"));
}

/// what the input element itself says about each part (the oracle of C16: the input, token-wise)
fn input_parts(di: &syn::DeriveInput) -> Value {
    use vh::body::toks;
    let fld = |f: &syn::Field| json!({"ident": f.ident.as_ref().map(|i| i.to_string()), "vis": toks(&f.vis), "ty": toks(&f.ty),
                                        "attrs": f.attrs.iter().filter(|a| !a.path().is_ident("f")).map(toks).collect::<Vec<_>>()});
    let style = |f: &syn::Fields| match f { syn::Fields::Named(_) => "named", syn::Fields::Unnamed(_) => "tuple", syn::Fields::Unit => "unit" };
    let data = match &di.data {
        syn::Data::Struct(s) => json!({"kind": "struct", "style": style(&s.fields), "entries": s.fields.iter().map(fld).collect::<Vec<_>>()}),
        syn::Data::Enum(e) => json!({"kind": "enum", "style": "", "entries": e.variants.iter().map(|v| json!({
            "ident": v.ident.to_string(), "discriminant": v.discriminant.as_ref().map(|d| toks(&d.1)), "style": style(&v.fields),
            "attrs": v.attrs.iter().filter(|a| !a.path().is_ident("f")).map(toks).collect::<Vec<_>>(),
            "fields": v.fields.iter().map(fld).collect::<Vec<_>>()})).collect::<Vec<_>>()}),
        syn::Data::Union(_) => json!({"kind": "union"}),
    };
    json!({"ident": di.ident.to_string(), "vis": toks(&di.vis), "generics": vh::body::gen_syn(&di.generics),
           "attrs": di.attrs.iter().filter(|a| !a.path().is_ident("f")).map(toks).collect::<Vec<_>>(), "data": data})
}

fn replay_body(path: &str) {
    use vh::body::*;
    let cases = read_tagged(path, "REPLAY");
    let mut prop: Vec<Value> = vec![];
    let mut nprop = 0u64;
    let mut runs = 0u64;
    let t = Templates::new();
    for (ci, c) in cases.iter().enumerate() {
        let salt = ci;
        let src = render(&c["body"], salt);
        let di: syn::DeriveInput = syn::parse_str(&src).unwrap_or_else(|e| panic!("unparsable {:?}: {}", src, e));
        let want = input_parts(&di);
        let mut why: Vec<String> = vec![];
        // ---- FromDeriveInput family
        for i in 0..body_gen::N_DI {
            let r = catch(std::panic::AssertUnwindSafe(|| body_gen::body_di(i, &di)));
            runs += 1;
            let (declared, res) = match r { Err(p) => { why.push(format!("BD{}: panicked: {}", i, p)); continue } Ok(None) => continue, Ok(Some(x)) => x };
            let has_data = declared.contains("data");
            let eok = c["expect"]["ok"].as_bool().unwrap() || !has_data;
            match res {
                Ok(parts) => {
                    if !eok { why.push(format!("BD{} {}: accepted a body with failing members / a union", i, declared)); continue; }
                    for (k, v) in parts.as_object().unwrap() {
                        let w = &want[k.as_str()];
                        let same = if k == "generics" {
                            v["params"] == w["params"] && v["where"] == w["where"] && (v.get("original").is_none() || v["original"] == *w)
                        } else { v == w };
                        if !same { why.push(format!("BD{} {}: part `{}` = {} differs from the input's {}", i, declared, k, v, w)); }
                    }
                }
                Err(e) => {
                    if eok { why.push(format!("BD{} {}: rejected a body whose members all convert: {}", i, declared, e)); continue; }
                    // every failure reported, named fields located by their name
                    let mut locs: Vec<Vec<String>> = vh::recv::leaves_of(&t, e).into_iter().map(|l| l.path).collect();
                    let mut exp: Vec<Vec<String>> = c["expect"]["failures"].as_array().unwrap().iter().map(|p| p.as_array().unwrap().iter().map(|s| s.as_str().unwrap().to_string()).collect()).collect();
                    locs.sort(); exp.sort();
                    // one leaf per failing member, located at (or, for a wrong value, below) the member: the expected path
                    // is a prefix of the reported one; longest expectations are matched first
                    let mut used = vec![false; locs.len()];
                    let mut ok = locs.len() == exp.len();
                    let mut order: Vec<&Vec<String>> = exp.iter().collect();
                    order.sort_by_key(|p| std::cmp::Reverse(p.len()));
                    for p in order {
                        let hit = (0..locs.len()).find(|j| !used[*j] && locs[*j] == *p).or_else(|| (0..locs.len()).find(|j| !used[*j] && locs[*j].len() >= p.len() && locs[*j][..p.len()] == p[..]));
                        match hit { Some(j) => used[j] = true, None => ok = false }
                    }
                    if !ok { why.push(format!("BD{} {}: failures reported at {:?}, expected {:?}", i, declared, locs, exp)); }
                }
            }
        }
        // ---- member-level receivers: every subset of magic fields gets exactly the member's parts
        let check_member = |who: String, got: Option<darling::Result<Value>>, wantm: &Value, why: &mut Vec<String>| {
            if let Some(r) = got {
                match r {
                    Ok(parts) => for (k, v) in parts.as_object().unwrap() {
                        if v != &wantm[k.as_str()] { why.push(format!("{}: part `{}` = {} differs from the input's {}", who, k, v, wantm[k.as_str()])); }
                    },
                    Err(e) => why.push(format!("{}: failed: {}", who, e)),
                }
            }
        };
        let fld_want = |f: &syn::Field| json!({"ident": f.ident.as_ref().map(|i| i.to_string()), "vis": toks(&f.vis), "ty": toks(&f.ty),
                                                 "attrs": f.attrs.iter().filter(|a| !a.path().is_ident("f")).map(toks).collect::<Vec<_>>()});
        match &di.data {
            syn::Data::Struct(s) => {
                for f in s.fields.iter() { for i in 0..32 { runs += 1; check_member(format!("BF{}", i), body_gen::body_field(i, f), &fld_want(f), &mut why); } }
                // Fields::try_from + to_tokens round trip (up to a trailing comma)
                if let Ok(fs) = darling::ast::Fields::<syn::Field>::try_from(&s.fields) {
                    let a = norm(&toks(&fs));
                    let b = norm(&toks(&s.fields));
                    if a != b { why.push(format!("Fields round trip: `{}` printed as `{}`", b, a)); }
                }
            }
            syn::Data::Enum(e) => for v in e.variants.iter() {
                let w = json!({"ident": v.ident.to_string(), "discriminant": v.discriminant.as_ref().map(|d| toks(&d.1)),
                               "fields": norm(&toks(&v.fields)),
                               "attrs": v.attrs.iter().filter(|a| !a.path().is_ident("f")).map(toks).collect::<Vec<_>>()});
                for i in 0..16 {
                    runs += 1;
                    let got = body_gen::body_variant(i, v).map(|r| r.map(|mut p| { if let Some(f) = p.get_mut("fields") { *f = json!(norm(f.as_str().unwrap())); } p }));
                    check_member(format!("BV{}", i), got, &w, &mut why);
                }
            },
            _ => {}
        }
        for tp in di.generics.type_params() {
            let w = json!({"ident": tp.ident.to_string(), "bounds": tp.bounds.iter().map(toks).collect::<Vec<_>>(), "default": tp.default.as_ref().map(toks),
                           "attrs": tp.attrs.iter().filter(|a| !a.path().is_ident("f")).map(toks).collect::<Vec<_>>()});
            for i in 0..32 { runs += 1; check_member(format!("BT{}", i), body_gen::body_tparam(i, tp), &w, &mut why); }
        }
        if !why.is_empty() {
            nprop += 1;
            if prop.len() < 30 { why.truncate(6); prop.push(json!({"case": c, "why": why, "source": src, "key": format!("body:{}", src.replace('\n', " "))})); }
        }
    }
    let samples: Vec<Value> = cases.iter().enumerate().step_by((cases.len() / 3).max(1)).take(3).map(|(i, c)| json!({"source": vh::body::render(&c["body"], i), "expect": c["expect"]})).collect();
    println!("{}", json!({"cases": cases.len(), "prop_mismatch": nprop, "model_drift": 0, "prop": prop, "model": [], "samples": samples, "counts": {"receiver_runs": runs}}));
}

/// `alt`: braced / parenthesised bodies are written without any field (`{}`, `()`) - for an enum on every other variant
fn body_source(b: &Value, alt: usize) -> String {
    let fields = |style: &str, empty: bool| match style {
        "named" => if empty { " {}".to_string() } else { " { a: u8 }".to_string() },
        "tuple" => if empty { "()".to_string() } else { "(u8, u16)".to_string() },
        "newtype" => "(u8)".to_string(),
        _ => String::new(),
    };
    match b["kind"].as_str().unwrap() {
        "struct" => { let f = fields(b["style"].as_str().unwrap(), alt > 0); if f.ends_with('}') { format!("struct D{}", f) } else { format!("struct D{};", f) } }
        "variant" => format!("enum D {{ V{} }}", fields(b["style"].as_str().unwrap(), alt > 0)),
        "enum" => format!("enum D {{ {} }}", b["vs"].as_array().unwrap().iter().enumerate().map(|(i, s)| format!("V{}{}", i, fields(s.as_str().unwrap(), alt > 0 && (i + alt) % 2 == 0))).collect::<Vec<_>>().join(", ")),
        "union" => "union D { a: u8, b: u16 }".to_string(),
        k => panic!("body kind {}", k),
    }
}

fn replay_shapes(path: &str) {
    use darling::util::{Shape, ShapeSet};
    let mut prop: Vec<Value> = vec![];
    let mut nprop = 0u64;
    let mut skipped = 0u64;
    let cases = read_tagged(path, "REPLAY");
    for c in &cases {
        let mut ws: Vec<String> = c["words"].as_array().unwrap().iter().map(|s| s.as_str().unwrap().to_string()).collect();
        ws.sort();
        let key = ws.join(",");
        for alt in 0..3 {
        let src = body_source(&c["body"], alt);
        if alt > 0 && src == body_source(&c["body"], 0) { continue; }
        let di: syn::DeriveInput = syn::parse_str(&src).unwrap_or_else(|e| panic!("unparsable body {:?}: {}", src, e));
        let r = catch(std::panic::AssertUnwindSafe(|| {
            if c["body"]["kind"] == "variant" {
                match &di.data { syn::Data::Enum(e) => shapes_gen::shape_variant(&key, &e.variants[0]), _ => unreachable!() }
            } else {
                shapes_gen::shape_di(&key, &di)
            }
        }));
        let why = match r {
            Err(p) => Some(format!("panicked: {}", p)),
            Ok(None) => { skipped += 1; None }
            Ok(Some(res)) => {
                let eok = c["expect"]["ok"].as_bool().unwrap();
                let en = c["expect"]["n"].as_u64().unwrap() as usize;
                match res {
                    Ok(()) if eok => None,
                    Ok(()) => Some(format!("accepted, the table rejects it with {} error(s)", en)),
                    Err(e) if eok => Some(format!("rejected ({}), the table accepts it", e)),
                    Err(e) => if e.len() == en { None } else { Some(format!("{} error leaves, expected {} (one per non-conforming variant): {}", e.len(), en, e)) },
                }
            }
        };
        if let Some(w) = why {
            nprop += 1;
            if prop.len() < 40 { prop.push(json!({"case": c, "why": [format!("supports({}) on `{}`: {}", key, src, w)], "key": format!("shapes:{}:{}", key, src)})); }
        }
        }
    }
    // the stand-alone ShapeSet API
    let api = read_tagged(path, "API");
    let sh = |s: &str| match s { "named" => Shape::Named, "tuple" => Shape::Tuple, "newtype" => Shape::Newtype, _ => Shape::Unit };
    for a in &api {
        let set = ShapeSet::new(a["set"].as_array().unwrap().iter().map(|s| sh(s.as_str().unwrap())));
        let s = sh(a["shape"].as_str().unwrap());
        let got = match catch(std::panic::AssertUnwindSafe(|| (set.contains(&s), set.check(&s).map_err(|e| e.to_string()).is_ok(), set.is_empty(), set.to_string().len()))) {
            Ok(g) => (g.0, g.1, g.2),
            Err(p) => {
                nprop += 1;
                prop.push(json!({"case": a, "why": [format!("ShapeSet{} vs {}: contains / check / is_empty / Display panicked: {}", a["set"], a["shape"], p)], "key": format!("shapeset-panic:{}:{}", a["set"], a["shape"])}));
                continue;
            }
        };
        let want = (a["contains"].as_bool().unwrap(), a["contains"].as_bool().unwrap(), a["empty"].as_bool().unwrap());
        if got != want {
            nprop += 1;
            prop.push(json!({"case": a, "why": [format!("ShapeSet{} vs {}: (contains, check, is_empty) = {:?}, expected {:?}", a["set"], a["shape"], got, want)], "key": format!("shapeset:{}:{}", a["set"], a["shape"])}));
        }
        // the same question asked of real syntax: every carrier of a body (syn::Fields, its named / unnamed halves, DataStruct,
        // Variant, ast::Fields), with and without fields
        let texts: Vec<&str> = match a["shape"].as_str().unwrap() { "named" => vec![" { a: u8 }", " {}"], "tuple" => vec!["(u8, u16)", "()"], "newtype" => vec!["(u8)"], _ => vec![""] };
        for t in texts {
            let di: syn::DeriveInput = syn::parse_str(&format!("enum D {{ V{} }}", t)).unwrap();
            let v = match &di.data { syn::Data::Enum(e) => e.variants[0].clone(), _ => unreachable!() };
            let ds = syn::DataStruct { struct_token: Default::default(), fields: v.fields.clone(), semi_token: None };
            let af: darling::ast::Fields<syn::Field> = darling::ast::Fields::try_from(&v.fields).unwrap();
            let mut got2 = vec![("syn::Fields", set.contains(&v.fields)), ("syn::Variant", set.contains(&v)), ("syn::DataStruct", set.contains(&ds)), ("ast::Fields", set.contains(&af))];
            match &v.fields { syn::Fields::Named(n) => got2.push(("syn::FieldsNamed", set.contains(n))), syn::Fields::Unnamed(u) => got2.push(("syn::FieldsUnnamed", set.contains(u))), _ => {} }
            for (who, g) in got2 {
                if g != want.0 {
                    nprop += 1;
                    prop.push(json!({"case": a, "why": [format!("ShapeSet{} contains {} `V{}` = {}, the table says {}", a["set"], who, t, g, want.0)], "key": format!("shapeset:{}:{}:{}", a["set"], who, t)}));
                }
            }
        }
    }
    let samples: Vec<Value> = cases.iter().step_by((cases.len() / 3).max(1)).take(3).map(|c| json!({"words": c["words"], "body": body_source(&c["body"], 0), "expect": c["expect"]})).collect();
    println!("{}", json!({"cases": cases.len() + api.len(), "prop_mismatch": nprop, "model_drift": 0, "prop": prop, "model": [], "samples": samples,
                           "counts": {"derived_cases": cases.len() as u64 - skipped, "api_cases": api.len()}}));
}

/// attributes are rendered one per line; an element wrapper puts them after a first line
fn raw_line_offset(raw: &RawOutcome, src: &str) -> usize {
    match raw.attrs.first() {
        Some(a) => {
            let first_line = syn::spanned::Spanned::span(a).start().line;
            let _ = src;
            first_line - 1
        }
        None => 0,
    }
}

/// impl -> spec: drive the derived receivers with random inputs that are longer / split into more attributes than the
/// exhaustive bounds, and log what the real parser did in the specification's vocabulary.
fn record(corpus: &str, seed: u64, n: usize, out: &str) {
    use std::io::Write;
    let decls = read_ndjson(corpus);
    let roots: Vec<&Value> = decls.iter().filter(|d| d["root"] == true && !d["alpha"].as_array().unwrap().is_empty()
        && !d["fields"].as_array().unwrap().iter().any(|f| f["ty"]["k"] == "map")).collect();
    let mut rng = Rng::new(seed);
    let mut f = std::io::BufWriter::new(std::fs::File::create(out).unwrap());
    let mut events = 0;
    for _ in 0..n {
        let d = *rng.pick(&roots);
        let alpha = d["alpha"].as_array().unwrap();
        let elem = d["trait"] != "FromMeta";
        let mut attrs: Vec<Value> = vec![];
        if elem {
            let names: Vec<&str> = d["attr_names"].as_array().unwrap().iter().map(|s| s.as_str().unwrap()).collect();
            let nattrs = 1 + rng.below(5);
            for _ in 0..nattrs {
                match rng.below(10) {
                    0 => attrs.push(json!({"path": "doc", "form": "nv", "items": []})),
                    1 => attrs.push(json!({"path": "keep", "form": "junk", "items": []})),
                    2 => attrs.push(json!({"path": "tool::x", "form": "word", "items": []})),
                    3 if !names.is_empty() => { let form = ["word", "nv", "junk"][rng.below(3)]; attrs.push(json!({"path": names[0], "form": form, "items": []})) }
                    _ if !names.is_empty() => {
                        let k = rng.below(4);
                        let items: Vec<Value> = (0..k).map(|_| rng.pick(alpha).clone()).collect();
                        attrs.push(json!({"path": *rng.pick(&names), "form": "list", "items": items}));
                    }
                    _ => attrs.push(json!({"path": "doc", "form": "nv", "items": []})),
                }
            }
        } else {
            let k = rng.below(9);
            let items: Vec<Value> = (0..k).map(|_| rng.pick(alpha).clone()).collect();
            attrs.push(json!({"path": "root", "form": "list", "items": items}));
        }
        let attrs = Value::Array(attrs);
        let src = attrs_text(&attrs);
        let raw = dispatch(d["id"].as_u64().unwrap(), &src);
        let leaves: Vec<Value> = raw.leaves.iter().map(|l| {
            let cls = match l.kind.as_str() { "unknown" | "dup" | "missing" => l.kind.clone(), "toofew" | "toomany" => l.kind.clone(), _ => "other".to_string() };
            let n = if ["unknown", "dup", "missing"].contains(&l.kind.as_str()) { l.name.clone() } else { String::new() };
            let loc: Vec<String> = l.path.iter().map(|s| { if let Some(i) = s.find('[') { if s.ends_with(']') { return format!("{}[]", &s[..i]); } } s.clone() }).collect();
            let (spos, exact) = match l.span { None => (vec![], false), Some(sp) => deepest(&raw.attrs, sp) };
            json!({"cls": cls, "n": n, "loc": loc, "spos": spos, "exact": exact, "alt": l.alt})
        }).collect();
        let ev = json!({"did": d["id"], "attrs": attrs, "panic": raw.panic.is_some(), "ok": raw.ok.is_some(),
                        "v": raw.ok.clone().unwrap_or(json!([])), "leaves": leaves,
                        "fwd": raw.fwd.clone().map(|f| json!(f)).unwrap_or(json!([])), "has_fwd": raw.fwd.is_some()});
        writeln!(f, "{}", ev).unwrap();
        events += 1;
    }
    println!("{}", json!({"events": events, "runs": events}));
}

/// the deepest position (attribute, item, nested item ...) whose item range contains the span, and whether it equals it
fn deepest(attrs: &[syn::Attribute], sp: vh::input::Range) -> (Vec<u64>, bool) {
    fn walk(tokens: proc_macro2::TokenStream, prefix: &mut Vec<u64>, sp: &vh::input::Range, best: &mut (Vec<u64>, bool)) {
        for (j, n) in vh::input::split(tokens).into_iter().enumerate() {
            let r = match &n { vh::input::Node::Meta(m) => vh::input::Range::of(syn::spanned::Spanned::span(m)), vh::input::Node::Lit(l) => vh::input::Range::of(syn::spanned::Spanned::span(l)) };
            if r.contains(sp) {
                prefix.push(j as u64 + 1);
                *best = (prefix.clone(), r == *sp);
                if let vh::input::Node::Meta(syn::Meta::List(l)) = &n { walk(l.tokens.clone(), prefix, sp, best); }
                prefix.pop();
            }
        }
    }
    let mut best = (vec![], false);
    for (a, attr) in attrs.iter().enumerate() {
        let r = vh::input::Range::of(syn::spanned::Spanned::span(attr));
        if r.contains(&sp) {
            best = (vec![a as u64 + 1], false);
            if let syn::Meta::List(l) = &attr.meta { let mut p = vec![a as u64 + 1]; walk(l.tokens.clone(), &mut p, &sp, &mut best); }
        }
    }
    best
}

fn main() { vh::util::run_main(real_main) }

fn real_main() {
    let args: Vec<String> = std::env::args().collect();
    if args.len() >= 6 && args[1] == "record" {
        record(&args[2], args[3].parse().unwrap(), args[4].parse().unwrap(), &args[5]);
        return;
    }
    if args.len() >= 3 && args[1] == "replay-body" {
        replay_body(&args[2]);
        return;
    }
    if args.len() >= 3 && args[1] == "replay-shapes" {
        replay_shapes(&args[2]);
        return;
    }
    if args.len() < 3 || args[1] != "replay" {
        eprintln!("usage: vhc replay <tlc-output | cases.ndjson>");
        std::process::exit(2);
    }
    let cases = if args[2].ends_with(".ndjson") { read_ndjson(&args[2]) } else { read_tagged(&args[2], "REPLAY") };
    let mut counts: std::collections::BTreeMap<String, u64> = Default::default();
    let mut prop: Vec<Value> = vec![];
    let mut model: Vec<Value> = vec![];
    let mut nprop = 0u64;
    let mut nmodel = 0u64;
    let mut byclass: std::collections::BTreeMap<String, u64> = Default::default();
    let mut distinct = std::collections::HashSet::new();
    for c in &cases {
        let did = c["did"].as_u64().unwrap();
        let src = attrs_text(&c["attrs"]);
        let raw = dispatch(did, &src);
        let mut mm = vh::recv::compare(&c["expect"], &raw);
        // C08, behaviourally: the same items written as a single attribute give the identical value or the identical errors
        // (message and location path of every leaf, in order; spans naturally differ)
        if c["merged"].as_array().map(|a| !a.is_empty()).unwrap_or(false) {
            let one = dispatch(did, &attrs_text(&c["merged"]));
            *counts.entry("merged_reruns".into()).or_default() += 1;
            if raw.panic.is_none() && one.panic.is_none() {
                if raw.ok.is_some() != one.ok.is_some() {
                    mm.push(vh::recv::Mismatch { class: "merge", why: format!("split over several attributes: {}, written as one attribute: {}", if raw.ok.is_some() { "accepted" } else { "rejected" }, if one.ok.is_some() { "accepted" } else { "rejected" }) });
                } else if raw.ok != one.ok {
                    mm.push(vh::recv::Mismatch { class: "merge", why: format!("value {} when split over several attributes, {} when written as one", raw.ok.clone().unwrap_or_default(), one.ok.clone().unwrap_or_default()) });
                } else {
                    let a: Vec<&String> = raw.leaves.iter().map(|l| &l.text).collect();
                    let b: Vec<&String> = one.leaves.iter().map(|l| &l.text).collect();
                    if a != b { mm.push(vh::recv::Mismatch { class: "merge", why: format!("errors {:?} when split over several attributes, {:?} when written as one", a, b) }); }
                }
            }
        }
        // C17 soundness, behaviourally: writing the suggested name instead must no longer be rejected as unknown
        for l in &raw.leaves {
            if l.kind == "unknown" && !l.alt.is_empty() {
                if let Some(sp) = l.span {
                    let lines: Vec<&str> = src.split('\n').collect();
                    // spans are relative to the rendered element: attributes start on line 2 for wrapped elements
                    if sp.l1 == sp.l2 {
                        let off = if c["trait_elem"].is_null() { 0 } else { 0 };
                        let _ = off;
                        let li = sp.l1 - 1 - raw_line_offset(&raw, &src);
                        if li < lines.len() {
                            let line = lines[li];
                            let chars: Vec<char> = line.chars().collect();
                            if sp.c2 <= chars.len() {
                                let item: String = chars[sp.c1..sp.c2].iter().collect();
                                if item.starts_with(l.name.as_str()) {
                                    let fixed_item = format!("{}{}", l.alt, &item[l.name.len()..]);
                                    let mut nl: Vec<String> = lines.iter().map(|s| s.to_string()).collect();
                                    nl[li] = format!("{}{}{}", chars[..sp.c1].iter().collect::<String>(), fixed_item, chars[sp.c2..].iter().collect::<String>());
                                    let again = dispatch(did, &nl.join("\n"));
                                    if again.leaves.iter().any(|x| x.kind == "unknown" && x.name == l.alt && x.path == l.path) {
                                        mm.push(vh::recv::Mismatch { class: "alt", why: format!("`{}` was suggested for `{}` but is itself rejected as unknown at {:?}", l.alt, l.name, l.path) });
                                    }
                                    *counts.entry("suggestions_retried".into()).or_default() += 1;
                                }
                            }
                        }
                    }
                }
            }
        }
        *counts.entry(if c["expect"]["ok"] == true { "expected_ok".into() } else { "expected_err".into() }).or_default() += 1;
        if !c["expect"]["ok"].as_bool().unwrap() {
            *counts.entry(format!("err_leaves_{}", c["expect"]["leaves"].as_array().unwrap().len().min(4))).or_default() += 1;
        }
        distinct.insert((did, src.clone()));
        let mut p: Vec<Value> = vec![];
        let mut m: Vec<String> = vec![];
        for x in mm {
            if x.class == "model" { m.push(x.why) } else {
                *byclass.entry(x.class.to_string()).or_default() += 1;
                p.push(json!({"class": x.class, "why": x.why}));
            }
        }
        if !p.is_empty() {
            nprop += 1;
            if prop.len() < 400 {
                let classes: Vec<String> = p.iter().map(|x| x["class"].as_str().unwrap().to_string()).collect();
                let why: Vec<String> = p.iter().map(|x| format!("[{}] {}", x["class"].as_str().unwrap(), x["why"].as_str().unwrap())).collect();
                prop.push(json!({"case": c, "classes": classes, "why": why, "source": src, "key": format!("recv:d{}:{}", did, src.replace('\n', " "))}));
            }
        }
        if !m.is_empty() {
            nmodel += 1;
            if model.len() < 5 { model.push(json!({"case": c, "why": m, "source": src})); }
        }
    }
    let samples: Vec<Value> = cases.iter().step_by((cases.len() / 3).max(1)).take(3)
        .map(|c| json!({"did": c["did"], "source": attrs_text(&c["attrs"]), "expect": c["expect"]})).collect();
    println!("{}", json!({"cases": cases.len(), "prop_mismatch": nprop, "model_drift": nmodel, "prop": prop, "model": model,
                           "samples": samples, "counts": counts, "by_class": byclass, "distinct": distinct.len()}));
}
