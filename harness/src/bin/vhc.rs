//! `vhc`: replay of Receiver.tla behaviours through the derived receivers of the generated corpus.
#![allow(unused_imports, dead_code, non_snake_case, unused_variables, unused_mut)]
use serde_json::{json, Value};
use vh::input::attrs_text;
use vh::util::*;

include!(concat!(env!("CARGO_MANIFEST_DIR"), "/gen/corpus_gen.rs"));

/// attributes are rendered one per line; an element wrapper puts them after a first line
fn raw_line_offset(raw: &RawOutcome, src: &str) -> usize {
    match raw.attrs.first() {
        Some(a) => {
            let first_line = syn::spanned::Spanned::span(a).start().line;
            let _ = src;
            first_line - 1
        }
        None => 0,
    }
}

fn main() {
    std::panic::set_hook(Box::new(|_| {}));
    let args: Vec<String> = std::env::args().collect();
    if args.len() < 3 || args[1] != "replay" {
        eprintln!("usage: vhc replay <tlc-output | cases.ndjson>");
        std::process::exit(2);
    }
    let cases = if args[2].ends_with(".ndjson") { read_ndjson(&args[2]) } else { read_tagged(&args[2], "REPLAY") };
    let mut counts: std::collections::BTreeMap<String, u64> = Default::default();
    let mut prop: Vec<Value> = vec![];
    let mut model: Vec<Value> = vec![];
    let mut nprop = 0u64;
    let mut nmodel = 0u64;
    let mut byclass: std::collections::BTreeMap<String, u64> = Default::default();
    let mut distinct = std::collections::HashSet::new();
    for c in &cases {
        let did = c["did"].as_u64().unwrap();
        let src = attrs_text(&c["attrs"]);
        let raw = dispatch(did, &src);
        let mut mm = vh::recv::compare(&c["expect"], &raw);
        // C17 soundness, behaviourally: writing the suggested name instead must no longer be rejected as unknown
        for l in &raw.leaves {
            if l.kind == "unknown" && !l.alt.is_empty() {
                if let Some(sp) = l.span {
                    let lines: Vec<&str> = src.split('\n').collect();
                    // spans are relative to the rendered element: attributes start on line 2 for wrapped elements
                    if sp.l1 == sp.l2 {
                        let off = if c["trait_elem"].is_null() { 0 } else { 0 };
                        let _ = off;
                        let li = sp.l1 - 1 - raw_line_offset(&raw, &src);
                        if li < lines.len() {
                            let line = lines[li];
                            let chars: Vec<char> = line.chars().collect();
                            if sp.c2 <= chars.len() {
                                let item: String = chars[sp.c1..sp.c2].iter().collect();
                                if item.starts_with(l.name.as_str()) {
                                    let fixed_item = format!("{}{}", l.alt, &item[l.name.len()..]);
                                    let mut nl: Vec<String> = lines.iter().map(|s| s.to_string()).collect();
                                    nl[li] = format!("{}{}{}", chars[..sp.c1].iter().collect::<String>(), fixed_item, chars[sp.c2..].iter().collect::<String>());
                                    let again = dispatch(did, &nl.join("\n"));
                                    if again.leaves.iter().any(|x| x.kind == "unknown" && x.name == l.alt && x.path == l.path) {
                                        mm.push(vh::recv::Mismatch { class: "alt", why: format!("`{}` was suggested for `{}` but is itself rejected as unknown at {:?}", l.alt, l.name, l.path) });
                                    }
                                    *counts.entry("suggestions_retried".into()).or_default() += 1;
                                }
                            }
                        }
                    }
                }
            }
        }
        *counts.entry(if c["expect"]["ok"] == true { "expected_ok".into() } else { "expected_err".into() }).or_default() += 1;
        if !c["expect"]["ok"].as_bool().unwrap() {
            *counts.entry(format!("err_leaves_{}", c["expect"]["leaves"].as_array().unwrap().len().min(4))).or_default() += 1;
        }
        distinct.insert((did, src.clone()));
        let mut p: Vec<Value> = vec![];
        let mut m: Vec<String> = vec![];
        for x in mm {
            if x.class == "model" { m.push(x.why) } else {
                *byclass.entry(x.class.to_string()).or_default() += 1;
                p.push(json!({"class": x.class, "why": x.why}));
            }
        }
        if !p.is_empty() {
            nprop += 1;
            if prop.len() < 400 {
                let classes: Vec<String> = p.iter().map(|x| x["class"].as_str().unwrap().to_string()).collect();
                let why: Vec<String> = p.iter().map(|x| format!("[{}] {}", x["class"].as_str().unwrap(), x["why"].as_str().unwrap())).collect();
                prop.push(json!({"case": c, "classes": classes, "why": why, "source": src, "key": format!("recv:d{}:{}", did, src.replace('\n', " "))}));
            }
        }
        if !m.is_empty() {
            nmodel += 1;
            if model.len() < 5 { model.push(json!({"case": c, "why": m, "source": src})); }
        }
    }
    let samples: Vec<Value> = cases.iter().step_by((cases.len() / 3).max(1)).take(3)
        .map(|c| json!({"did": c["did"], "source": attrs_text(&c["attrs"]), "expect": c["expect"]})).collect();
    println!("{}", json!({"cases": cases.len(), "prop_mismatch": nprop, "model_drift": nmodel, "prop": prop, "model": model,
                           "samples": samples, "counts": counts, "by_class": byclass, "distinct": distinct.len()}));
}
