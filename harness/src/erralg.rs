//! Binding of spec/ErrorAlgebra.tla to darling::Error.
use crate::util::*;
use darling::Error;
use serde_json::{json, Value};

pub struct Ctx {
    pub t: Templates,
    pub spans: SpanTable,
}
impl Ctx {
    pub fn new() -> Self {
        Ctx { t: Templates::new(), spans: SpanTable::new(8) }
    }
}

fn leaf(kind: &str, name: &str) -> Error {
    match kind {
        "custom" => Error::custom(name),
        "dup" => Error::duplicate_field(name),
        "missing" => Error::missing_field(name),
        "unknown" => Error::unknown_field(name),
        "shape" => Error::unsupported_shape(name),
        "shapeexp" => Error::unsupported_shape_with_expected(name, &"e1 or e2"),
        "format" => Error::unsupported_format(name),
        "type" => Error::unexpected_type(name),
        "value" => Error::unknown_value(name),
        "toofew" => Error::too_few_items(name.parse().unwrap()),
        "toomany" => Error::too_many_items(name.parse().unwrap()),
        _ => panic!("kind {}", kind),
    }
}

/// Build a real value from an abstract tree using the public API in canonical order.
pub fn build(cx: &Ctx, a: &Value) -> Error {
    let k = a["k"].as_str().unwrap();
    let mut e = if k == "multi" {
        Error::multiple(a["ch"].as_array().unwrap().iter().map(|c| build(cx, c)).collect())
    } else {
        leaf(k, a["n"].as_str().unwrap())
    };
    for l in a["loc"].as_array().unwrap().iter().rev() {
        e = e.at(l.as_str().unwrap());
    }
    let sp = span_id(&a["sp"]);
    if sp != 0 {
        e = e.with_span(&cx.spans.get(sp));
    }
    e
}

/// span record of the spec -> id of the span table (0 = NoSpan)
pub fn span_id(v: &Value) -> u64 {
    v["pos"].as_array().and_then(|p| p.first()).and_then(|x| x.as_u64()).unwrap_or(0)
}
pub fn span_rec(id: u64) -> Value {
    if id == 0 { json!({"pos": [], "part": ""}) } else { json!({"pos": [id], "part": "item"}) }
}

fn split_loc(disp: &str, kindmsg: &str) -> Vec<String> {
    let rest = &disp[kindmsg.len()..];
    if rest.is_empty() {
        vec![]
    } else {
        let rest = rest.strip_prefix(" at ").unwrap_or_else(|| panic!("location suffix in {:?}", disp));
        rest.split('/').map(|s| s.to_string()).collect()
    }
}

/// Project a real value back to the abstract tree, using only the public API.
pub fn project(cx: &Ctx, e: &Error) -> Value {
    let sp = span_rec(e.explicit_span().map(|s| cx.spans.id_of(s)).unwrap_or(0));
    let disp = e.to_string();
    if e.len() > 1 {
        let kids: Vec<Error> = e.clone().into_iter().collect();
        let kd: Vec<String> = kids.iter().map(|k| k.to_string()).collect();
        let kindmsg = format!("Multiple errors: ({})", kd.join(", "));
        let loc = if disp.starts_with(&kindmsg) { split_loc(&disp, &kindmsg) } else { vec![format!("?unparsed:{}", disp)] };
        json!({"k": "multi", "n": "", "loc": loc, "sp": sp, "alt": "",
               "ch": kids.iter().map(|k| project(cx, k)).collect::<Vec<_>>()})
    } else {
        // leaf: the longest kind message that is a prefix of the display
        let (msg, loc) = match disp.rfind(" at ") {
            // try every " at " split point from the right; the location part has no blanks
            _ => {
                let mut best: Option<(String, Vec<String>)> = None;
                let mut idxs: Vec<usize> = disp.match_indices(" at ").map(|(i, _)| i).collect();
                idxs.push(disp.len());
                for i in idxs {
                    let tail = &disp[i..];
                    if tail.is_empty() || !tail[4..].contains(' ') {
                        let locs = if tail.is_empty() { vec![] } else { tail[4..].split('/').map(|s| s.to_string()).collect() };
                        best = Some((disp[..i].to_string(), locs));
                        break;
                    }
                }
                best.unwrap()
            }
        };
        let (k, n, alt) = cx.t.classify(&msg);
        json!({"k": k, "n": n, "loc": loc, "sp": sp, "alt": alt, "ch": []})
    }
}

/// Everything observable about one value (same shape as Obs(e) in the spec), in *real* text.
pub fn observe(cx: &Ctx, e: &Error) -> Value {
    let flat: Vec<Value> = e
        .clone()
        .flatten()
        .into_iter()
        .map(|l| json!({"d": l.to_string(), "sp": span_rec(l.explicit_span().map(|s| cx.spans.id_of(s)).unwrap_or(0))}))
        .collect();
    let syn_err: syn::Error = e.clone().into();
    let syn: Vec<Value> = syn_err
        .into_iter()
        .map(|s| json!({"msg": s.to_string(), "sp": span_rec(cx.spans.id_of(s.span()))}))
        .collect();
    json!({"len": e.len(), "disp": e.to_string(), "flat": flat, "syn": syn})
}

/// compile_error! invocations of write_errors(): messages in order
pub fn compile_errors(ts: proc_macro2::TokenStream) -> Vec<String> {
    use proc_macro2::TokenTree as T;
    let mut out = vec![];
    let toks: Vec<T> = ts.into_iter().collect();
    let mut i = 0;
    while i < toks.len() {
        if let T::Ident(id) = &toks[i] {
            if id == "compile_error" {
                // compile_error ! { "msg" }
                if let Some(T::Group(g)) = toks.get(i + 2) {
                    for t in g.stream() {
                        if let T::Literal(l) = t {
                            if let Ok(s) = syn::parse_str::<syn::LitStr>(&l.to_string()) {
                                out.push(s.value());
                            }
                        }
                    }
                }
            }
        }
        if let T::Group(g) = &toks[i] {
            out.extend(compile_errors(g.stream()));
        }
        i += 1;
    }
    out
}

fn render_obs(cx: &Ctx, o: &Value) -> Value {
    // expected observation: replace symbolic messages by the crate's text
    match o {
        Value::String(s) => Value::String(render_symbolic(&cx.t, s)),
        Value::Array(a) => Value::Array(a.iter().map(|x| render_obs(cx, x)).collect()),
        Value::Object(m) => Value::Object(m.iter().map(|(k, v)| (k.clone(), render_obs(cx, v))).collect()),
        v => v.clone(),
    }
}

/// Apply one spec operation to a pool of real values.
pub fn apply(cx: &Ctx, pool: &mut Vec<Error>, op: &Value) {
    let name = op["name"].as_str().unwrap();
    let i = op["i"].as_u64().unwrap() as usize;
    match name {
        "leaf" => {
            pool.push(leaf(op["a"].as_str().unwrap(), op["b"].as_str().unwrap()));
        }
        "at" => {
            let e = pool.remove(i - 1);
            pool.insert(i - 1, e.at(op["a"].as_str().unwrap()));
        }
        "with_span" => {
            let e = pool.remove(i - 1);
            pool.insert(i - 1, e.with_span(&cx.spans.get(op["s"].as_u64().unwrap())));
        }
        "multiple" => {
            let sel: Vec<usize> = op["sel"].as_array().unwrap().iter().map(|x| x.as_u64().unwrap() as usize).collect();
            let mut slots: Vec<Option<Error>> = pool.drain(..).map(Some).collect();
            let picked: Vec<Error> = sel.iter().map(|j| slots[*j - 1].take().expect("distinct selection")).collect();
            pool.extend(slots.into_iter().flatten());
            pool.push(Error::multiple(picked));
        }
        "flatten" => {
            let e = pool.remove(i - 1);
            pool.insert(i - 1, e.flatten());
        }
        "clone" => {
            let c = pool[i - 1].clone();
            pool.push(c);
        }
        "into_iter" => {
            let e = pool.remove(i - 1);
            pool.extend(e.into_iter());
        }
        "drop" => {
            pool.remove(i - 1);
        }
        _ => panic!("op {}", name),
    }
}

pub struct Outcome {
    pub prop: Vec<String>,
    pub model: Vec<String>,
}

/// Replay one transition printed by TLC: build `pre`, apply `op`, compare with `post` and `obs`.
pub fn replay_one(cx: &Ctx, case: &Value) -> Outcome {
    let mut out = Outcome { prop: vec![], model: vec![] };
    let pre = case["pre"].as_array().unwrap();
    let r = catch(std::panic::AssertUnwindSafe(|| {
        let mut pool: Vec<Error> = pre.iter().map(|a| build(cx, a)).collect();
        // the builder is trusted only as far as the projection agrees with it
        let back: Vec<Value> = pool.iter().map(|e| project(cx, e)).collect();
        apply(cx, &mut pool, &case["op"]);
        let post: Vec<Value> = pool.iter().map(|e| project(cx, e)).collect();
        let obs: Vec<Value> = pool.iter().map(|e| observe(cx, e)).collect();
        let ce: Vec<Vec<String>> = pool.iter().map(|e| compile_errors(e.clone().write_errors())).collect();
        (back, post, obs, ce)
    }));
    match r {
        Err(p) => out.prop.push(format!("panic: {}", p)),
        Ok((back, post, obs, ce)) => {
            if Value::Array(back.clone()) != case["pre"] {
                out.prop.push(format!("pre-state not reproducible: built {} projected {}", case["pre"], Value::Array(back)));
            }
            let epost = case["post"].as_array().unwrap();
            let eobs = case["obs"].as_array().unwrap();
            if post.len() != epost.len() {
                out.prop.push(format!("pool size {} vs {}", post.len(), epost.len()));
                return out;
            }
            for i in 0..post.len() {
                let eo = render_obs(cx, &eobs[i]);
                // property level: count, leaves (text incl. path, order), one diagnostic per leaf with its message and span
                for key in ["len", "flat", "syn"] {
                    if obs[i][key] != eo[key] {
                        out.prop.push(format!("{}[{}]: expected {} observed {}", key, i + 1, eo[key], obs[i][key]));
                    }
                }
                let is_leaf = epost[i]["k"] != "multi";
                if obs[i]["disp"] != eo["disp"] {
                    let m = format!("disp[{}]: expected {} observed {}", i + 1, eo["disp"], obs[i]["disp"]);
                    if is_leaf { out.prop.push(m) } else { out.model.push(m) }
                }
                let msgs: Vec<Value> = eo["syn"].as_array().unwrap().iter().map(|s| s["msg"].clone()).collect();
                let cev: Vec<Value> = ce[i].iter().map(|s| Value::String(s.clone())).collect();
                if msgs != cev {
                    out.prop.push(format!("write_errors[{}]: expected {:?} observed {:?}", i + 1, msgs, cev));
                }
                if post[i] != epost[i] {
                    // the tree itself (incl. a bundle's own span and path): implied by the observations
                    // for everything the property states; the rest is model level
                    out.model.push(format!("tree[{}]: expected {} observed {}", i + 1, epost[i], post[i]));
                }
            }
        }
    }
    out
}

const ALL_KINDS: [&str; 11] = ["custom", "dup", "missing", "unknown", "shape", "shapeexp", "format", "type", "value", "toofew", "toomany"];

/// Drive the real code with a random history and log one event per call with the projected pool.
pub fn record(cx: &Ctx, rng: &mut Rng, nops: usize, max_pool: usize, max_leaves: usize, out: &mut Vec<Value>) {
    let mut pool: Vec<Error> = vec![];
    out.push(json!({"ev": "reset", "op": {"name": "reset", "i": 0, "a": "", "b": "", "s": 0, "sel": []}, "pool": []}));
    let names = ["x", "y.", "7"];      // a custom message that is a sentence
    let locs = ["a", "b", "c", "d"];
    for _ in 0..nops {
        let total: usize = pool.iter().map(|e| e.len()).sum();
        let mut cands: Vec<Value> = vec![];
        if pool.len() < max_pool && total < max_leaves {
            let k = *rng.pick(&ALL_KINDS);
            let n = if k == "toofew" || k == "toomany" { "7" } else { *rng.pick(&names[..2]) };
            for _ in 0..3 { cands.push(json!({"name": "leaf", "i": 0, "a": k, "b": n, "s": 0, "sel": []})); }
        }
        if !pool.is_empty() {
            let i = rng.below(pool.len()) + 1;
            cands.push(json!({"name": "at", "i": i, "a": *rng.pick(&locs), "b": "", "s": 0, "sel": []}));
            cands.push(json!({"name": "at", "i": i, "a": *rng.pick(&locs), "b": "", "s": 0, "sel": []}));
            cands.push(json!({"name": "with_span", "i": i, "a": "", "b": "", "s": rng.below(6) + 1, "sel": []}));
            cands.push(json!({"name": "flatten", "i": i, "a": "", "b": "", "s": 0, "sel": []}));
            if pool.len() < max_pool && total + pool[i - 1].len() <= max_leaves {
                cands.push(json!({"name": "clone", "i": i, "a": "", "b": "", "s": 0, "sel": []}));
            }
            if pool.len() - 1 + pool[i - 1].clone().into_iter().count() <= max_pool {
                cands.push(json!({"name": "into_iter", "i": i, "a": "", "b": "", "s": 0, "sel": []}));
            }
            if rng.chance(1, 6) {
                cands.push(json!({"name": "drop", "i": i, "a": "", "b": "", "s": 0, "sel": []}));
            }
            // ordered selection of 1..=5 distinct members
            let n = 1 + rng.below(pool.len().min(5));
            let mut idx: Vec<usize> = (1..=pool.len()).collect();
            let mut sel = vec![];
            for _ in 0..n {
                sel.push(idx.remove(rng.below(idx.len())));
            }
            for _ in 0..3 { cands.push(json!({"name": "multiple", "i": 0, "a": "", "b": "", "s": 0, "sel": sel})); }
        }
        let op = rng.pick(&cands).clone();
        apply(cx, &mut pool, &op);
        let proj: Vec<Value> = pool.iter().map(|e| project(cx, e)).collect();
        let obs: Vec<Value> = pool.iter().map(|e| {
            let o = observe(cx, e);
            json!({"len": o["len"], "nflat": o["flat"].as_array().unwrap().len(), "nsyn": o["syn"].as_array().unwrap().len()})
        }).collect();
        out.push(json!({"ev": "op", "op": op, "pool": proj, "obs": obs}));
    }
}
