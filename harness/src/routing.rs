//! Binding of spec/MetaRouting.tla: 128 probe implementers (one per subset of the seven hooks) log
//! which hook was called with what, and return Ok / an unspanned error / an error with its own span.
use crate::input::Range;
use crate::util::*;
use serde_json::{json, Value};
use std::cell::RefCell;

thread_local! {
    pub static CALLS: RefCell<Vec<(String, String)>> = RefCell::new(vec![]);
    pub static MODE: RefCell<(String, Option<proc_macro2::Span>)> = RefCell::new(("ok".into(), None));
}

pub fn hit(hook: &str, arg: String) -> darling::Result<()> {
    CALLS.with(|c| c.borrow_mut().push((hook.to_string(), arg)));
    MODE.with(|m| {
        let m = m.borrow();
        match m.0.as_str() {
            "ok" => Ok(()),
            "err" => Err(darling::Error::custom("probe-error")),
            _ => Err(darling::Error::custom("probe-error").with_span(&m.1.unwrap())),
        }
    })
}

const HOOKS: [&str; 7] = ["word", "list", "bool", "string", "char", "value", "expr"];

fn lit_text(l: &str, salt: usize) -> &'static str {
    match l {
        "bool" => ["true", "false"][salt % 2],
        "str" => ["\"text\"", "r#\"raw \"q\"\"#"][salt % 2],
        "char" => ["'c'", "'\\n'"][salt % 2],
        "int" => ["5", "-7", "0x1f"][salt % 3],
        "float" => ["1.5", "2e3"][salt % 2],
        "bytestr" => ["b\"x\"", "b'x'"][salt % 2],
        "path" => ["foo::bar", "x"][salt % 2],
        "binary" => ["x + 1", "a && b"][salt % 2],
        "paren" => ["(\"x\")", "(true)", "('c')", "(1)", "(a + b)"][salt % 5],
        _ => panic!("lit {}", l),
    }
}

fn wrap_groups(e: syn::Expr, n: u64) -> syn::Expr {
    let mut e = e;
    for _ in 0..n {
        e = syn::Expr::Group(syn::ExprGroup { attrs: vec![], group_token: Default::default(), expr: Box::new(e) });
    }
    e
}

pub fn replay_one(case: &Value, idx: usize) -> crate::erralg::Outcome {
    let mut prop = vec![];
    let mut model = vec![];
    let mask: u32 = case["S"].as_array().unwrap().iter().map(|h| 1u32 << HOOKS.iter().position(|x| *x == h.as_str().unwrap()).unwrap()).sum();
    let it = &case["item"];
    let mode = case["mode"].as_str().unwrap();
    // the item, parsed from source so that every token has a line/column; an own-span token on line 1
    let lit = it["lit"].as_str().unwrap();
    let body = match (it["pos"].as_str().unwrap(), it["form"].as_str().unwrap()) {
        ("nested_lit", _) => format!("{}", lit_text(lit, idx)),
        (_, "word") => "name".to_string(),
        (_, "list") => ["name(a, b = 1)", "name()"][idx % 2].to_string(),
        (_, "junk") => "name(a b ; =>)".to_string(),
        (_, "nv") => format!("name = {}", lit_text(lit, idx)),
        x => panic!("{:?}", x),
    };
    let src = format!("own_span_token\n#[root({})]\nstruct Demo;", body);
    let ts: proc_macro2::TokenStream = src.parse().unwrap();
    let mut iter = ts.into_iter();
    let own = match iter.next().unwrap() { proc_macro2::TokenTree::Ident(i) => i.span(), _ => unreachable!() };
    let rest: proc_macro2::TokenStream = iter.collect();
    let di: syn::DeriveInput = syn::parse2(rest).unwrap();
    let tokens = match &di.attrs[0].meta { syn::Meta::List(l) => l.tokens.clone(), _ => unreachable!() };
    let nodes = crate::input::split(tokens);
    MODE.with(|m| *m.borrow_mut() = (mode.to_string(), Some(own)));
    CALLS.with(|c| c.borrow_mut().clear());
    let groups = it["groups"].as_u64().unwrap();
    let (res, item_range) = match &nodes[0] {
        crate::input::Node::Lit(l) => {
            let nm = darling::ast::NestedMeta::Lit(l.clone());
            let r = Range::of(syn::spanned::Spanned::span(l));
            (catch(std::panic::AssertUnwindSafe(|| crate::probes_gen::probe_nested(mask, &nm))), r)
        }
        crate::input::Node::Meta(m) => {
            let r = Range::of(syn::spanned::Spanned::span(m));
            let m2 = match m {
                syn::Meta::NameValue(nv) if groups > 0 => syn::Meta::NameValue(syn::MetaNameValue { path: nv.path.clone(), eq_token: nv.eq_token, value: wrap_groups(nv.value.clone(), groups) }),
                other => other.clone(),
            };
            (catch(std::panic::AssertUnwindSafe(|| crate::probes_gen::probe_meta(mask, &m2))), r)
        }
    };
    let calls: Vec<(String, String)> = CALLS.with(|c| c.borrow().clone());
    let res = match res { Err(p) => { prop.push(format!("panicked: {}", p)); return crate::erralg::Outcome { prop, model } } Ok(r) => r };
    let tag = format!("hooks {:?} mode {} on `{}`{}", case["S"], mode, body, if groups > 0 { format!(" (+{} invisible groups)", groups) } else { String::new() });
    let want = case["expect"]["hook"].as_str().unwrap();
    // routed to exactly one hook (or none, with the default rejection)
    if want.is_empty() {
        if !calls.is_empty() { prop.push(format!("{}: no overridden hook is responsible for this form, yet {:?} was called", tag, calls)); }
        if res.is_ok() { prop.push(format!("{}: accepted although every responsible hook is at its default", tag)); }
    } else {
        if calls.len() != 1 || calls[0].0 != want { prop.push(format!("{}: expected exactly one call to `{}`, observed {:?}", tag, want, calls)); }
        if (mode == "ok") != res.is_ok() { prop.push(format!("{}: the hook returned {} but the result is {}", tag, mode, if res.is_ok() { "Ok" } else { "Err" })); }
        // the payload is the item's own: list items already split, literal values decoded, tokens for value/expr
        if calls.len() == 1 {
            let arg = &calls[0].1;
            let okarg = match want {
                "list" => arg == if body.ends_with("()") { "0" } else { "2" },
                "bool" => arg == lit_text(lit, idx),
                "string" => syn::parse_str::<syn::LitStr>(lit_text(lit, idx)).map(|l| &l.value() == arg).unwrap_or(false),
                "char" => syn::parse_str::<syn::LitChar>(lit_text(lit, idx)).map(|l| &l.value().to_string() == arg).unwrap_or(false),
                "value" | "expr" => arg.replace(' ', "") == lit_text(lit, idx).replace(' ', ""),
                _ => true,
            };
            if !okarg { prop.push(format!("{}: hook `{}` received `{}`", tag, want, arg)); }
        }
    }
    if let Err(e) = &res {
        // an error comes back carrying a span: its own if it had one, else one inside the item
        match e.explicit_span() {
            None => prop.push(format!("{}: the error `{}` came back without a span", tag, e)),
            Some(s) => {
                let r = Range::of(s);
                if mode == "err_spanned" && !calls.is_empty() {
                    if r != Range::of(own) { prop.push(format!("{}: the hook's own span {:?} was replaced by {:?}", tag, Range::of(own), r)); }
                } else if !item_range.contains(&r) {
                    prop.push(format!("{}: error span {:?} is outside the item {:?}", tag, r, item_range));
                }
            }
        }
        // model level: the documented kind of error of each default
        let kind = case["model"]["kind"].as_str().unwrap();
        let txt = e.to_string();
        let okk = match kind.split(':').next().unwrap() {
            "probe" => txt.contains("probe-error"),
            "format" => txt == darling::Error::unsupported_format(kind.split(':').nth(1).unwrap()).to_string(),
            "type" => {
                let k = kind.split(':').nth(1).unwrap();
                let alt = match k { "bytestr" => vec!["byte string", "byte"], "str" => vec!["string"], x => vec![x] };
                alt.iter().any(|a| txt == darling::Error::unexpected_type(a).to_string())
            }
            "exprtype" => txt == darling::Error::unexpected_type(kind.split(':').nth(1).unwrap()).to_string(),
            "syntax" => true,
            _ => false,
        };
        if !okk { model.push(format!("{}: machine predicted error class `{}`, observed `{}`", tag, kind, txt)); }
    }
    let _ = json!(null);
    crate::erralg::Outcome { prop, model }
}
