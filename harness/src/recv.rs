//! Binding of spec/Receiver.tla to derived receivers: run the real parser on a rendered input,
//! project Ok values to terms and Err values to leaves (kind, name, path, span range).
use crate::input::*;
use crate::sym::Proj;
use crate::util::*;
use darling::ast::NestedMeta;
use serde_json::{json, Value};

pub trait Magic {
    fn fwd(&self) -> Option<&Vec<syn::Attribute>> { None }
    fn ident_s(&self) -> Option<String> { None }
}

pub struct LeafObs {
    pub kind: String,
    pub name: String,
    pub alt: String,
    pub path: Vec<String>,
    pub span: Option<Range>,
    pub rendered: String,
    pub text: String,
}

pub struct RawOutcome {
    pub ok: Option<Value>,
    pub leaves: Vec<LeafObs>,
    pub panic: Option<String>,
    pub fwd: Option<Vec<i64>>,
    pub ident: Option<String>,
    pub attrs: Vec<syn::Attribute>,
    pub nerr: usize,
}

pub fn leaves_of(t: &Templates, e: darling::Error) -> Vec<LeafObs> {
    e.flatten()
        .into_iter()
        .map(|l| {
            let text = l.to_string();
            // split "<kind message> at a/b/c": the path has no blanks
            let mut msg = text.clone();
            let mut path = vec![];
            let mut idxs: Vec<usize> = text.match_indices(" at ").map(|(i, _)| i).collect();
            idxs.reverse();
            for i in idxs {
                let tail = &text[i + 4..];
                if !tail.is_empty() && !tail.contains(' ') {
                    msg = text[..i].to_string();
                    path = tail.split('/').map(|s| s.to_string()).collect();
                }
            }
            let (kind, name, alt) = t.classify(&msg);
            let span = l.explicit_span().map(Range::of);
            let rendered = syn::Error::from(l).to_string();
            LeafObs { kind, name, alt, path, span, rendered, text }
        })
        .collect()
}

fn finish<T: Proj + Magic>(t: &Templates, r: Result<darling::Result<T>, String>, attrs: Vec<syn::Attribute>) -> RawOutcome {
    match r {
        Err(p) => RawOutcome { ok: None, leaves: vec![], panic: Some(p), fwd: None, ident: None, attrs, nerr: 0 },
        Ok(Ok(v)) => {
            let fwd = v.fwd().map(|fa| {
                fa.iter()
                    .map(|a| {
                        let ts = quote::ToTokens::to_token_stream(a).to_string();
                        let r = Range::of(syn::spanned::Spanned::span(a));
                        attrs
                            .iter()
                            .position(|b| quote::ToTokens::to_token_stream(b).to_string() == ts && Range::of(syn::spanned::Spanned::span(b)) == r)
                            .map(|i| i as i64 + 1)
                            .unwrap_or(-1)
                    })
                    .collect()
            });
            RawOutcome { ok: Some(v.proj()), leaves: vec![], panic: None, fwd, ident: v.ident_s(), attrs, nerr: 0 }
        }
        Ok(Err(e)) => {
            let nerr = e.len();
            RawOutcome { ok: None, leaves: leaves_of(t, e), panic: None, fwd: None, ident: None, attrs, nerr }
        }
    }
}

thread_local! { pub static TEMPLATES: Templates = Templates::new(); }

/// A derived FromMeta struct fed the items of `#[root(items...)]` through from_list.
pub fn run_meta_list<T: darling::FromMeta + Proj + Magic>(attrs_src: &str) -> RawOutcome {
    let src = format!("{}\nstruct Demo;", attrs_src);
    let di: syn::DeriveInput = syn::parse_str(&src).unwrap_or_else(|e| panic!("harness rendered unparsable input {:?}: {}", src, e));
    let attrs = di.attrs.clone();
    let r = catch(std::panic::AssertUnwindSafe(|| {
        let tokens = match &di.attrs[0].meta {
            syn::Meta::List(l) => l.tokens.clone(),
            _ => proc_macro2::TokenStream::new(),
        };
        let items = NestedMeta::parse_meta_list(tokens)?;
        T::from_list(&items)
    }));
    TEMPLATES.with(|t| finish(t, r, attrs))
}

pub enum Elem {
    DI(syn::DeriveInput),
    Field(syn::Field),
    Variant(syn::Variant),
    TParam(syn::TypeParam),
    Attrs(Vec<syn::Attribute>),
}

/// Source text of an element of the given kind carrying the attributes.
pub fn element(tr: &str, attrs_src: &str) -> (Elem, Vec<syn::Attribute>) {
    let src = match tr {
        "FromDeriveInput" | "FromAttributes" => format!("{}\nstruct Demo;", attrs_src),
        "FromField" => format!("struct W {{\n{}\npub fld: u32 }}", attrs_src),
        "FromVariant" => format!("enum W {{\n{}\nVar }}", attrs_src),
        "FromTypeParam" => format!("struct W<\n{}\nT>(T);", attrs_src),
        _ => panic!("trait {}", tr),
    };
    let di: syn::DeriveInput = syn::parse_str(&src).unwrap_or_else(|e| panic!("harness rendered unparsable input {:?}: {}", src, e));
    match tr {
        "FromDeriveInput" => { let a = di.attrs.clone(); (Elem::DI(di), a) }
        "FromAttributes" => { let a = di.attrs.clone(); (Elem::Attrs(a.clone()), a) }
        "FromField" => match &di.data {
            syn::Data::Struct(s) => { let f = s.fields.iter().next().unwrap().clone(); let a = f.attrs.clone(); (Elem::Field(f), a) }
            _ => unreachable!(),
        },
        "FromVariant" => match &di.data {
            syn::Data::Enum(e) => { let v = e.variants[0].clone(); let a = v.attrs.clone(); (Elem::Variant(v), a) }
            _ => unreachable!(),
        },
        "FromTypeParam" => { let tp = di.generics.type_params().next().unwrap().clone(); let a = tp.attrs.clone(); (Elem::TParam(tp), a) }
        _ => unreachable!(),
    }
}

pub fn run_element<T: Proj + Magic>(tr: &str, attrs_src: &str, parse: impl Fn(&Elem) -> darling::Result<T>) -> RawOutcome {
    let (elem, attrs) = element(tr, attrs_src);
    let r = catch(std::panic::AssertUnwindSafe(|| parse(&elem)));
    TEMPLATES.with(|t| finish(t, r, attrs))
}

// ------------------------------------------------------------------------------------------ comparison

pub struct Mismatch {
    pub class: &'static str, // value | leaves | span | panic | fwd | alt | model
    pub why: String,
}

fn norm_maps(v: &Value) -> Value {
    match v {
        Value::Array(a) => {
            let mut items: Vec<Value> = a.iter().map(norm_maps).collect();
            if items.first().map(|x| x == "#map").unwrap_or(false) {
                let mut rest = items.split_off(1);
                rest.sort_by(|x, y| x[0].as_str().unwrap_or("").cmp(y[0].as_str().unwrap_or("")));
                items.extend(rest);
            }
            Value::Array(items)
        }
        x => x.clone(),
    }
}

fn norm_seg(s: &str) -> String {
    // name[3] -> name[]
    if let Some(i) = s.find('[') {
        if s.ends_with(']') && s[i + 1..s.len() - 1].chars().all(|c| c.is_ascii_digit()) {
            return format!("{}[]", &s[..i]);
        }
    }
    s.to_string()
}

fn obs_class(l: &LeafObs) -> (String, String) {
    match l.kind.as_str() {
        "unknown" | "dup" | "missing" => (l.kind.clone(), l.name.clone()),
        "toofew" | "toomany" => (l.kind.clone(), String::new()),
        _ => ("other".to_string(), String::new()),
    }
}

fn u64s(v: &Value) -> Vec<u64> {
    v.as_array().map(|a| a.iter().map(|x| x.as_u64().unwrap()).collect()).unwrap_or_default()
}

/// Compare one replay expectation (printed by TLC) with what the real parser did.
///
/// Property level (classes value / leaves / span / panic / fwd / alt): against the DECLARATIVE side of
/// the specification only - `clean`, `v_decl`, `fwd_decl`, `mistakes` (class, name, path, region).
/// Model level (class model): against the operational machine's prediction - exact kinds, order, spans.
pub fn compare(exp: &Value, raw: &RawOutcome) -> Vec<Mismatch> {
    let mut out = vec![];
    if let Some(p) = &raw.panic {
        out.push(Mismatch { class: "panic", why: format!("the parser panicked: {}", p) });
        return out;
    }
    let clean = exp["clean"].as_bool().unwrap();
    if clean {
        match &raw.ok {
            None => out.push(Mismatch { class: "value", why: format!("mistake-free input rejected: [{}]", raw.leaves.iter().map(|l| l.text.clone()).collect::<Vec<_>>().join("; ")) }),
            Some(v) => {
                let ev = norm_maps(&exp["v_decl"]);
                let ov = norm_maps(v);
                if ev != ov {
                    out.push(Mismatch { class: "value", why: format!("expected value {} observed {}", ev, ov) });
                }
                if let Some(of) = &raw.fwd {
                    let ofv: Vec<Value> = of.iter().map(|x| json!(x)).collect();
                    if Value::Array(ofv) != exp["fwd_decl"] {
                        out.push(Mismatch { class: "fwd", why: format!("forwarded attributes: expected indices {} observed {:?}", exp["fwd_decl"], of) });
                    }
                }
            }
        }
    } else {
        let ms = exp["mistakes"].as_array().unwrap();
        if let Some(v) = &raw.ok {
            out.push(Mismatch { class: "leaves", why: format!("input with {} mistake(s) accepted as {}", ms.len(), v) });
            return out;
        }
        let mut used = vec![false; raw.leaves.len()];
        let mut unmatched_m = vec![];
        for m in ms {
            let key = (m["cls"].as_str().unwrap().to_string(), m["n"].as_str().unwrap().to_string());
            let loc: Vec<String> = m["loc"].as_array().unwrap().iter().map(|s| s.as_str().unwrap().to_string()).collect();
            let pos = u64s(&m["pos"]);
            let region = if pos.is_empty() { None } else { resolve(&raw.attrs, &pos, if pos.len() == 1 { "attr" } else { "item" }) };
            let eq = m["eq"].as_bool().unwrap();
            let fits = |l: &LeafObs| match (&region, &l.span) {
                (Some(r), Some(s)) => if eq { r == s } else { r.contains(s) },
                (None, None) => pos.is_empty(),
                _ => false,
            };
            let mut pick: Option<usize> = None;
            for (j, l) in raw.leaves.iter().enumerate() {
                if used[j] { continue; }
                let lp: Vec<String> = l.path.iter().map(|s| norm_seg(s)).collect();
                if obs_class(l) == key && lp == loc {
                    if pick.is_none() { pick = Some(j); }
                    if fits(l) { pick = Some(j); break; }
                }
            }
            match pick {
                None => unmatched_m.push(format!("{}({}) at {:?}", key.0, key.1, loc)),
                Some(j) => {
                    used[j] = true;
                    let l = &raw.leaves[j];
                    if !fits(l) {
                        let why = if pos.is_empty() {
                            format!("leaf `{}` has no enclosing item but carries span {:?}", l.text, l.span)
                        } else if l.span.is_none() {
                            format!("leaf `{}` concerns the item at {:?} but carries no span", l.text, pos)
                        } else {
                            format!("leaf `{}`: span {:?} is not {} the item at {:?} = {:?}", l.text, l.span.unwrap(), if eq { "equal to" } else { "inside" }, pos, region)
                        };
                        // an unspanned-by-design leaf that does carry a span is only model drift
                        out.push(Mismatch { class: if pos.is_empty() { "model" } else { "span" }, why });
                    }
                    if l.span.is_none() {
                        for seg in &l.path {
                            if !l.rendered.contains(seg.as_str()) {
                                out.push(Mismatch { class: "span", why: format!("unspanned leaf `{}` renders as `{}` without its location `{}`", l.text, l.rendered, seg) });
                            }
                        }
                    }
                    if l.kind != "unknown" {
                        if !l.alt.is_empty() {
                            out.push(Mismatch { class: "alt", why: format!("suggestion on a non-unknown leaf `{}`", l.text) });
                        }
                    } else {
                        let alts: Vec<&str> = m["alts"].as_array().unwrap().iter().map(|a| a.as_str().unwrap()).collect();
                        if !alts.contains(&l.alt.as_str()) {
                            out.push(Mismatch { class: "alt", why: format!("unknown `{}`: suggestion `{}` is not among the best eligible names {:?}", l.name, l.alt, alts) });
                        }
                    }
                }
            }
        }
        let extra: Vec<String> = (0..raw.leaves.len()).filter(|j| !used[*j]).map(|j| raw.leaves[j].text.clone()).collect();
        if !unmatched_m.is_empty() || !extra.is_empty() {
            out.push(Mismatch { class: "leaves", why: format!("mistakes not reported: [{}]; errors that correspond to no mistake: [{}]", unmatched_m.join(", "), extra.join(", ")) });
        }
        if raw.nerr != raw.leaves.len() {
            out.push(Mismatch { class: "leaves", why: format!("len() = {} but {} flattened leaves", raw.nerr, raw.leaves.len()) });
        }
    }
    // ---- model level: the operational prediction, leaf by leaf in order
    let eok = exp["ok"].as_bool().unwrap();
    if eok != raw.ok.is_some() {
        out.push(Mismatch { class: "model", why: format!("machine predicted ok={} observed ok={}", eok, raw.ok.is_some()) });
        return out;
    }
    if eok {
        if norm_maps(&exp["v"]) != norm_maps(raw.ok.as_ref().unwrap()) {
            out.push(Mismatch { class: "model", why: format!("machine predicted value {} observed {}", exp["v"], raw.ok.as_ref().unwrap()) });
        }
        return out;
    }
    let el = exp["leaves"].as_array().unwrap();
    if el.len() != raw.leaves.len() {
        out.push(Mismatch { class: "model", why: format!("machine predicted {} leaves, observed {}", el.len(), raw.leaves.len()) });
        return out;
    }
    for (e, o) in el.iter().zip(raw.leaves.iter()) {
        let ek = e["k"].as_str().unwrap();
        if ek == "unknown" && e["alt"].as_str().unwrap() != o.alt {
            out.push(Mismatch { class: "model", why: format!("unknown `{}`: machine predicted suggestion `{}` observed `{}`", o.name, e["alt"], o.alt) });
        }
        let kind_ok = ek == o.kind || (ek == "rejected" && !["unknown", "dup", "missing", "toofew", "toomany"].contains(&o.kind.as_str()))
            || (ek == "custom" && o.kind == "custom");
        let name_ok = ek == "rejected" || ek == "custom" || e["n"].as_str().unwrap() == o.name;
        let eloc: Vec<String> = e["loc"].as_array().unwrap().iter().map(|s| s.as_str().unwrap().to_string()).collect();
        if !kind_ok || !name_ok || eloc != o.path {
            out.push(Mismatch { class: "model", why: format!("leaf order/kind: machine predicted {}({}) at {:?}, observed `{}`", ek, e["n"], eloc, o.text) });
            continue;
        }
        let pos = u64s(&e["sp"]["pos"]);
        let part = e["sp"]["part"].as_str().unwrap();
        let want = if pos.is_empty() { None } else { resolve(&raw.attrs, &pos, part) };
        if part != "attr" && part != "inside" && want != o.span {
            out.push(Mismatch { class: "model", why: format!("leaf `{}`: machine predicted span {:?} ({:?} {}), observed {:?}", o.text, want, pos, part, o.span) });
        }
    }
    out
}
