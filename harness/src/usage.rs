//! Binding of spec/Usage.tla and spec/ImplBounds.tla.
use crate::util::*;
use darling_core::usage::{CollectLifetimes, CollectTypeParams, IdentSet, LifetimeSet, Purpose, UsesLifetimes, UsesTypeParams};
use serde_json::{json, Value};

fn seq<'a>(v: &'a Value, k: &str) -> &'a Vec<Value> { v[k].as_array().unwrap() }

fn print_bounds(bs: &[Value]) -> String {
    bs.iter().map(|b| {
        if b["b"] == "trait" {
            let bl = seq(b, "bl");
            format!("{}{}", if bl.is_empty() { String::new() } else { format!("for<{}> ", bl.iter().map(|l| format!("'{}", l.as_str().unwrap())).collect::<Vec<_>>().join(", ")) }, print(&b["path"][0]))
        } else { format!("'{}", b["lt"].as_str().unwrap()) }
    }).collect::<Vec<_>>().join(" + ")
}

fn print_seg(s: &Value) -> String {
    let args = seq(s, "args");
    if args.is_empty() { return s["id"].as_str().unwrap().to_string(); }
    if args.len() == 1 && args[0]["a"] == "paren" {
        return format!("{}({})", s["id"].as_str().unwrap(), seq(&args[0], "t").iter().map(print).collect::<Vec<_>>().join(", "));
    }
    let a: Vec<String> = args.iter().map(|a| match a["a"].as_str().unwrap() {
        "ty" => print(&a["t"][0]),
        "lt" => format!("'{}", a["id"].as_str().unwrap()),
        "const" => format!("{{ {} }}", a["id"].as_str().unwrap()),
        "assoc" => format!("{} = {}", a["id"].as_str().unwrap(), print(&a["t"][0])),
        "constraint" => format!("{}: {}", a["id"].as_str().unwrap(), print_bounds(seq(a, "bounds"))),
        x => panic!("arg {}", x),
    }).collect();
    format!("{}<{}>", s["id"].as_str().unwrap(), a.join(", "))
}

/// the Rust spelling of a type term
pub fn print(t: &Value) -> String {
    let ch = seq(t, "ch");
    match t["k"].as_str().unwrap() {
        "path" => {
            let segs: Vec<String> = seq(t, "segs").iter().map(print_seg).collect();
            let q = seq(t, "qself");
            if q.is_empty() { format!("{}{}", if t["lead"] == true { "::" } else { "" }, segs.join("::")) }
            else { format!("<{} as {}>::{}", print(&q[0]), segs[..segs.len() - 1].join("::"), segs[segs.len() - 1]) }
        }
        "ref" => format!("&{}{}", if t["lt"] == "" { String::new() } else { format!("'{} ", t["lt"].as_str().unwrap()) }, print(&ch[0])),
        "ptr" => format!("*const {}", print(&ch[0])),
        "slice" => format!("[{}]", print(&ch[0])),
        "array" => format!("[{}; 4]", print(&ch[0])),
        "paren" => format!("({})", print(&ch[0])),
        "tuple" => format!("({})", ch.iter().map(print).collect::<Vec<_>>().join(", ")),
        "fn" => {
            let bl = seq(t, "bl");
            let out = seq(t, "out");
            format!("{}fn({}){}", if bl.is_empty() { String::new() } else { format!("for<{}> ", bl.iter().map(|l| format!("'{}", l.as_str().unwrap())).collect::<Vec<_>>().join(", ")) },
                    ch.iter().map(print).collect::<Vec<_>>().join(", "), if out.is_empty() { String::new() } else { format!(" -> {}", print(&out[0])) })
        }
        "dyn" => format!("(dyn {})", print_bounds(seq(t, "bounds"))),
        "macro" => "m!(T, U)".to_string(),
        "never" => "!".to_string(),
        "infer" => "_".to_string(),
        k => panic!("type kind {}", k),
    }
}

fn idents(names: &[&str]) -> IdentSet { names.iter().map(|n| syn::Ident::new(n, proc_macro2::Span::call_site())).collect() }
fn lifetimes(names: &[&str]) -> LifetimeSet { names.iter().map(|n| syn::Lifetime::new(&format!("'{}", n), proc_macro2::Span::call_site())).collect() }
fn sorted(v: &Value) -> Vec<String> { let mut x: Vec<String> = v.as_array().unwrap().iter().map(|s| s.as_str().unwrap().to_string()).collect(); x.sort(); x }

pub fn replay_type(case: &Value) -> (crate::erralg::Outcome, String) {
    let mut prop = vec![];
    let text = print(&case["ty"]);
    let ty: syn::Type = match syn::parse_str(&text) { Ok(t) => t, Err(e) => { prop.push(format!("harness: `{}` is not a type: {}", text, e)); return (crate::erralg::Outcome { prop, model: vec![] }, text) } };
    let other: syn::Type = syn::parse_str("U").unwrap();
    for (name, set) in [("T", vec!["T"]), ("TU", vec!["T", "U"]), ("U", vec!["U"]), ("none", vec![])] {
        for (purpose, key) in [(Purpose::BoundImpl, "bound"), (Purpose::Declare, "declare")] {
            let s = idents(&set);
            let r = catch(std::panic::AssertUnwindSafe(|| {
                let mut got: Vec<String> = ty.uses_type_params(&purpose.into(), &s).into_iter().map(|i| i.to_string()).collect();
                got.sort();
                let mut both: Vec<String> = [&ty, &other].into_iter().collect_type_params(&purpose.into(), &s).into_iter().map(|i| i.to_string()).collect();
                both.sort();
                let mut alone: Vec<String> = other.uses_type_params(&purpose.into(), &s).into_iter().map(|i| i.to_string()).collect();
                alone.extend(got.iter().cloned());
                alone.sort(); alone.dedup();
                (got, both, alone)
            }));
            match r {
                Err(p) => prop.push(format!("`{}` {:?} {}: panicked: {}", text, set, key, p)),
                Ok((got, both, union)) => {
                    let want = sorted(&case["expect"]["sets"][name][key]);
                    if got != want { prop.push(format!("uses_type_params(`{}`, {:?}, {}) = {:?}, the parameters denoted there are {:?}", text, set, key, got, want)); }
                    if both != union { prop.push(format!("collect_type_params([`{}`, `U`], {:?}, {}) = {:?} is not the union {:?}", text, set, key, both, union)); }
                }
            }
        }
    }
    for (purpose, key) in [(Purpose::BoundImpl, "bound"), (Purpose::Declare, "declare")] {
        let l = lifetimes(&["a", "b"]);
        match catch(std::panic::AssertUnwindSafe(|| {
            let mut got: Vec<String> = ty.uses_lifetimes(&purpose.into(), &l).into_iter().map(|x| x.ident.to_string()).collect();
            got.sort();
            let mut both: Vec<String> = [&ty, &other].into_iter().collect_lifetimes(&purpose.into(), &l).into_iter().map(|x| x.ident.to_string()).collect();
            both.sort();
            (got, both)
        })) {
            Err(p) => prop.push(format!("`{}` lifetimes {}: panicked: {}", text, key, p)),
            Ok((got, both)) => {
                let want = sorted(&case["expect"]["lts"][key]);
                if got != want { prop.push(format!("uses_lifetimes(`{}`, ['a, 'b], {}) = {:?}, written there: {:?}", text, key, got, want)); }
                if both != got { prop.push(format!("collect_lifetimes([`{}`, `U`]) = {:?} differs from the member's {:?}", text, both, got)); }
            }
        }
    }
    (crate::erralg::Outcome { prop, model: vec![] }, text)
}

/// field type using exactly the given declared parameters (several spellings per use set)
fn field_type(uses: &[String], salt: usize) -> String {
    let has = |p: &str| uses.iter().any(|u| u == p);
    if has("V") {
        let rest: Vec<String> = uses.iter().filter(|u| *u != "V").cloned().collect();
        return format!("({}, Vec<V>)", field_type_tu(&rest, salt));
    }
    field_type_tu(uses, salt)
}

fn field_type_tu(uses: &[String], salt: usize) -> String {
    let has = |p: &str| uses.iter().any(|u| u == p);
    match (has("T"), has("U")) {
        // a parameter named only as the self type of a qualified path is not used for the purpose of bounds
        (false, false) => ["u8", "Vec<String>", "m::T", "::U", "Map<T = u8>", "<T as Tr>::Out", "Option<<U as Tr>::Out>"][salt % 7].to_string(),
        (true, false) => ["T", "Vec<T>", "&'a [T]", "Option<Box<dyn Fn(T) -> u8>>", "a::B<T>::C", "T::Item", "(T, <U as Tr>::Out)"][salt % 7].to_string(),
        (false, true) => ["U", "(U, u8)", "fn(U)", "[U; N]", "(<T as Tr>::Out, U)"][salt % 5].to_string(),
        (true, true) => ["(T, U)", "Result<T, U>", "fn(T) -> U", "HashMap<T, Vec<U>>", "T::Out<U>", "T::Assoc<Vec<U>>::Item"][salt % 6].to_string(),     // incl. arguments on a segment after the parameter
    }
}

pub fn replay_bounds(case: &Value, idx: usize) -> (crate::erralg::Outcome, String) {
    let mut prop = vec![];
    let generics = "<'a, T, U: Clone, V, const N: usize>";
    let wher = "where U: Default, V: 'a";
    let fld = |f: &Value, k: usize, named: bool| {
        let uses: Vec<String> = f["uses"].as_array().unwrap().iter().map(|s| s.as_str().unwrap().to_string()).collect();
        format!("{}{}{}", if f["skip"] == true { "#[darling(skip)] " } else if f["flatten"] == true && named { "#[darling(flatten)] " } else { "" }, if named { format!("f{}: ", k) } else { String::new() }, field_type(&uses, idx + k))
    };
    let mut first = String::new();
    let derives: Vec<&str> = if case["kind"] == "struct" { vec!["FromMeta", "FromDeriveInput", "FromField", "FromVariant", "FromTypeParam", "FromAttributes"] } else { vec!["FromMeta"] };
    for derive in derives {
        let src = if case["kind"] == "struct" {
            let fs: Vec<String> = case["fields"].as_array().unwrap().iter().enumerate().map(|(k, f)| fld(f, k, true)).collect();
            format!("{}struct Demo{} {} {{ {} }}", if derive == "FromAttributes" { "#[darling(attributes(x))] " } else { "" }, generics, wher, fs.join(", "))
        } else {
            let vs: Vec<String> = case["variants"].as_array().unwrap().iter().enumerate().map(|(j, v)| {
                let fs = v["fs"].as_array().unwrap();
                let body = if fs.is_empty() { String::new() } else if fs.len() == 1 && j % 2 == 0 { format!("({})", fld(&fs[0], 0, false)) } else { format!(" {{ {} }}", fs.iter().enumerate().map(|(k, f)| fld(f, k, true)).collect::<Vec<_>>().join(", ")) };
                format!("{}V{}{}", if v["skip"] == true { "#[darling(skip)] " } else { "" }, j, body)
            }).collect();
            format!("enum Demo{} {} {{ {} }}", generics, wher, vs.join(", "))
        };
        if first.is_empty() { first = src.clone(); }
        let di: syn::DeriveInput = match syn::parse_str(&src) { Ok(d) => d, Err(e) => { prop.push(format!("harness: `{}`: {}", src, e)); continue } };
        let ts = match catch(std::panic::AssertUnwindSafe(|| crate::deriveopts::run_derive(derive, &di))) { Ok(t) => t, Err(p) => { prop.push(format!("derive({}) on `{}` panicked: {}", derive, src, p)); continue } };
        let file: syn::File = match syn::parse2(ts.clone()) { Ok(f) => f, Err(e) => { prop.push(format!("derive({}) on `{}`: unparsable output {}", derive, src, e)); continue } };
        let imp = file.items.iter().find_map(|i| if let syn::Item::Impl(x) = i { Some(x) } else { None });
        let imp = match imp { Some(i) => i, None => { prop.push(format!("derive({}) on `{}`: no impl block: {}", derive, src, ts)); continue } };
        // generics repeated unchanged apart from the added bound; where-clause unchanged
        let mut bounded: Vec<String> = vec![];
        let mut stripped = imp.generics.clone();
        for p in stripped.params.iter_mut() {
            if let syn::GenericParam::Type(tp) = p {
                let before = tp.bounds.len();
                let kept: syn::punctuated::Punctuated<syn::TypeParamBound, syn::Token![+]> = tp.bounds.iter().filter(|b| !quote::ToTokens::to_token_stream(b).to_string().contains("FromMeta")).cloned().collect();
                if kept.len() != before { bounded.push(tp.ident.to_string()); }
                tp.bounds = kept;
                if tp.bounds.is_empty() { tp.colon_token = None; }
            }
        }
        bounded.sort();
        let norm = |g: &syn::Generics| { let (a, _, w) = g.split_for_impl(); format!("{} {}", quote::ToTokens::to_token_stream(&a), w.map(|w| quote::ToTokens::to_token_stream(w).to_string()).unwrap_or_default()).replace(" ,", ",").replace(", >", " >") };
        if norm(&stripped) != norm(&di.generics) { prop.push(format!("derive({}) on `{}`: impl generics `{}` differ from the receiver's `{}`", derive, src, norm(&stripped), norm(&di.generics))); }
        let want = sorted(&case["expect"]);
        if bounded != want { prop.push(format!("derive({}) on `{}`: the conversion bound was added to {:?}; the parameters used by parsed fields are {:?}", derive, src, bounded, want)); }
    }
    let _ = json!(null);
    (crate::erralg::Outcome { prop, model: vec![] }, first)
}
