//! Binding of spec/DeriveOptions.tla: render a declaration, call darling_core::derive::* as a library
//! function under catch_unwind, classify the returned tokens (impl blocks vs compile_error! diagnostics)
//! and locate every diagnostic among the declaration's option items and members.
use crate::input::Range;
use crate::util::*;
use serde_json::{json, Value};

fn item_src(it: &Value, derive: &str) -> String {
    let n = it["name"].as_str().unwrap();
    // FromVariant's supports(..) takes the shape words without a prefix
    let v = derive == "FromVariant";
    match it["form"].as_str().unwrap() {
        "word" => n.to_string(),
        "true" => format!("{} = true", n),
        "false" => format!("{} = false", n),
        "str" => format!("{} = \"x::y\"", n),
        "rule" => format!("{} = \"camelCase\"", n),
        "preds" => format!("{} = \"T: Clone, U: 'static\"", n),
        "path" => format!("{} = a::b", n),
        "closure" => format!("{} = |x| x", n),
        "words" => format!("{}(a, b)", n),
        "empty" => format!("{}()", n),
        "shapes" => if v { format!("{}(named, unit)", n) } else { format!("{}(struct_named, enum_unit)", n) },
        "badshape" => if v { format!("{}(named, bogus)", n) } else { format!("{}(struct_named, struct_bogus)", n) },
        "litshape" => if v { format!("{}(named, \"unit\")", n) } else { format!("{}(struct_named, \"enum_any\")", n) },
        "nvshape" => if v { format!("{}(named, unit = true)", n) } else { format!("{}(struct_any, enum_unit = true)", n) },
        "pathshape" => if v { format!("{}(named, shapes::unit)", n) } else { format!("{}(struct_named, ::shapes::enum_unit)", n) },
        "anybad" => if v { format!("{}(any, bogus)", n) } else { format!("{}(any, struct_bogus)", n) },
        "dblprefix" => if v { format!("{}(named_named)", n) } else { format!("{}(struct_struct_named)", n) },
        f => panic!("form {}", f),
    }
}

/// the `#[darling ..]` attributes carrying the items; `split`: one attribute per item
fn attrs_src(items: &[Value], split: bool, derive: &str) -> String {
    let mut out = vec![];
    let mut cur: Vec<String> = vec![];
    let flush = |cur: &mut Vec<String>, out: &mut Vec<String>| { if !cur.is_empty() { out.push(format!("#[darling({})]", cur.join(", "))); cur.clear(); } };
    for it in items {
        match it["name"].as_str().unwrap() {
            "@bare" => { flush(&mut cur, &mut out); out.push("#[darling]".into()); }
            "@nv" => { flush(&mut cur, &mut out); out.push("#[darling = \"x\"]".into()); }
            "@junk" => {
                flush(&mut cur, &mut out);
                const SOUP: [&str; 6] = ["a b ; =>", "= =", "1 2 3", "a(b) c", "::", "x = , y"];
                out.push(format!("#[darling({})]", SOUP[(items.len() + out.len()) % SOUP.len()]));
            }
            "@lit" => { cur.push("\"lit\"".into()); if split { flush(&mut cur, &mut out); } }
            _ => { cur.push(item_src(it, derive)); if split { flush(&mut cur, &mut out); } }
        }
    }
    flush(&mut cur, &mut out);
    out.join("\n")
}

pub fn render(c: &Value, split: bool) -> String {
    let arr = |k: &str| c[k].as_array().unwrap().clone();
    let d = c["derive"].as_str().unwrap();
    let cont = attrs_src(&arr("cont"), split, d);
    let f1 = attrs_src(&arr("f1"), split, d);
    let f2 = attrs_src(&arr("f2"), split, d);
    let v1 = attrs_src(&arr("v1"), split, d);
    let v2 = attrs_src(&arr("v2"), split, d);
    let body = match c["shape"].as_str().unwrap() {
        "named" => format!("struct Demo {{\n{}\nf1: u8,\n{}\n}}", f1, if c["f2present"] == true { format!("{}\nf2: u8,", f2) } else { String::new() }),
        "named_attrs" => format!("struct Demo {{\n{}\nf1: u8,\nattrs: Vec<syn::Attribute>,\n}}", f1),
        "named_attrs_with" => format!("struct Demo {{\n{}\nf1: u8,\n#[darling(with = a::b)]\nattrs: Vec<syn::Attribute>,\n}}", f1),
        "unit" => "struct Demo;".to_string(),
        "newtype" => "struct Demo(u8);".to_string(),
        "tuple2" => "struct Demo(u8, u16);".to_string(),
        "tuple0" => "struct Demo();".to_string(),
        "named0" => "struct Demo {}".to_string(),
        "enum0" => "enum Demo {}".to_string(),
        "union" => "union Demo { a: u8, b: u16 }".to_string(),
        "enum" => {
            // the field of a struct variant carries the f1 options
            let vf = format!(" {{\n{}\na: u8 }}", f1);
            let st = match c["v1style"].as_str().unwrap() { "unit" => "", "newtype" => "(u8)", "struct" => vf.as_str(), "tuple0" => "()", "struct0" => " {}", _ => "(u8, u16)" };
            // a second struct variant when field 2 carries options
            let v2body = if c["f2present"] == true { format!(" {{\n{}\nb: u8 }}", f2) } else { String::new() };
            format!("enum Demo {{\n{}\nV1{},\n{}\n}}", v1, st, if c["v2present"] == true || c["f2present"] == true { format!("{}\nV2{},", v2, v2body) } else { String::new() })
        }
        s => panic!("shape {}", s),
    };
    format!("{}\n{}", cont, body)
}

pub fn run_derive(derive: &str, di: &syn::DeriveInput) -> proc_macro2::TokenStream {
    use darling_core::derive as d;
    match derive {
        "FromMeta" => d::from_meta(di), "FromDeriveInput" => d::from_derive_input(di), "FromField" => d::from_field(di),
        "FromVariant" => d::from_variant(di), "FromTypeParam" => d::from_type_param(di), "FromAttributes" => d::from_attributes(di),
        x => panic!("derive {}", x),
    }
}

pub struct Classified { pub impls: usize, pub other_items: usize, pub diags: Vec<(String, (usize, usize))>, pub unparsable: Option<String> }

/// impl blocks of the requested trait and compile_error! diagnostics (message, start line/col) in the output
pub fn classify(ts: proc_macro2::TokenStream, trait_name: &str) -> Classified {
    let mut diags = vec![];
    fn walk(ts: proc_macro2::TokenStream, out: &mut Vec<(String, (usize, usize))>) {
        let toks: Vec<proc_macro2::TokenTree> = ts.into_iter().collect();
        for (i, t) in toks.iter().enumerate() {
            match t {
                proc_macro2::TokenTree::Ident(id) if id == "compile_error" => {
                    let mut msg = String::new();
                    if let Some(proc_macro2::TokenTree::Group(g)) = toks.get(i + 2) {
                        for x in g.stream() { if let proc_macro2::TokenTree::Literal(l) = x { if let Ok(s) = syn::parse_str::<syn::LitStr>(&l.to_string()) { msg = s.value(); } } }
                    }
                    out.push((msg, (id.span().start().line, id.span().start().column)));
                }
                proc_macro2::TokenTree::Group(g) => walk(g.stream(), out),
                _ => {}
            }
        }
    }
    walk(ts.clone(), &mut diags);
    match syn::parse2::<syn::File>(ts) {
        Err(e) => Classified { impls: 0, other_items: 0, diags, unparsable: Some(e.to_string()) },
        Ok(f) => {
            let mut impls = 0;
            let mut other = 0;
            for it in &f.items {
                match it {
                    syn::Item::Impl(i) => {
                        let ok = i.trait_.as_ref().map(|(_, p, _)| p.segments.last().map(|s| s.ident == trait_name).unwrap_or(false)).unwrap_or(false);
                        if ok { impls += 1 } else { other += 1 }
                    }
                    syn::Item::Macro(m) if m.mac.path.segments.last().map(|s| s.ident == "compile_error").unwrap_or(false) => {}
                    _ => other += 1,
                }
            }
            Classified { impls, other_items: other, diags, unparsable: None }
        }
    }
}

/// ranges of every position of the declaration: ("c", i) the i-th container option item, ("f1", i) ..., (el, 0) the member
pub fn positions(di: &syn::DeriveInput) -> Vec<((String, u64), Range)> {
    let mut out = vec![];
    let items_of = |attrs: &[syn::Attribute], el: &str, out: &mut Vec<((String, u64), Range)>| {
        let mut k = 0u64;
        for a in attrs.iter().filter(|a| a.path().is_ident("darling")) {
            match &a.meta {
                syn::Meta::List(l) => {
                    let nodes = crate::input::split(l.tokens.clone());
                    if nodes.is_empty() { k += 1; out.push(((el.to_string(), k), Range::of(syn::spanned::Spanned::span(a)))); }
                    for n in nodes {
                        k += 1;
                        let r = match &n { crate::input::Node::Meta(m) => Range::of(syn::spanned::Spanned::span(m)), crate::input::Node::Lit(l) => Range::of(syn::spanned::Spanned::span(l)) };
                        out.push(((el.to_string(), k), r));
                    }
                }
                _ => { k += 1; out.push(((el.to_string(), k), Range::of(syn::spanned::Spanned::span(a)))); }
            }
        }
    };
    items_of(&di.attrs, "c", &mut out);
    out.push((("c".into(), 0), Range::of(syn::spanned::Spanned::span(&di.ident))));
    out.push((("body".into(), 0), Range::of(syn::spanned::Spanned::span(di))));
    match &di.data {
        syn::Data::Struct(s) => for (i, f) in s.fields.iter().enumerate() {
            let el = format!("f{}", i + 1);
            items_of(&f.attrs, &el, &mut out);
            out.push(((el, 0), Range::of(syn::spanned::Spanned::span(f))));
        },
        syn::Data::Enum(e) => for (i, v) in e.variants.iter().enumerate() {
            let el = format!("v{}", i + 1);
            items_of(&v.attrs, &el, &mut out);
            out.push(((el, 0), Range::of(syn::spanned::Spanned::span(v))));
            // the first field of the first variant is element "f1"
            if i == 1 { if let Some(f) = v.fields.iter().next() { items_of(&f.attrs, "f2", &mut out); out.push((("f2".into(), 0), Range::of(syn::spanned::Spanned::span(f)))); } }
            if i == 0 { if let Some(f) = v.fields.iter().next() { items_of(&f.attrs, "f1", &mut out); out.push((("f1".into(), 0), Range::of(syn::spanned::Spanned::span(f)))); } }
        },
        _ => {}
    }
    out
}

fn within(r: &Range, p: (usize, usize)) -> bool { (r.l1, r.c1) <= p && p <= (r.l2, r.c2) }

pub fn replay_one(c: &Value, idx: usize) -> (crate::erralg::Outcome, String, bool) {
    let mut prop = vec![];
    let mut model = vec![];
    let mut panicked = false;
    let derive = c["derive"].as_str().unwrap();
    let mut first_src = String::new();
    for split in [false, true] {
        if split && idx % 3 != 0 { continue; }              // every third declaration also with one attribute per option
        let src = format!("\n{}", render(c, split));         // line 1 stays free: call-site spans are (1, 0)
        if first_src.is_empty() { first_src = src.clone(); }
        let di: syn::DeriveInput = match syn::parse_str(&src) { Ok(d) => d, Err(e) => { prop.push(format!("harness: unparsable declaration {:?}: {}", src, e)); continue } };
        let tag = format!("derive({}) on `{}`", derive, src.trim().replace('\n', " "));
        let r = catch(std::panic::AssertUnwindSafe(|| run_derive(derive, &di)));
        let ts = match r { Err(p) => { panicked = true; prop.push(format!("{}: the derive panicked: {}", tag, p)); continue } Ok(t) => t };
        let cl = classify(ts, derive);
        if let Some(e) = &cl.unparsable { prop.push(format!("{}: output is not a sequence of items: {}", tag, e)); continue; }
        // C06: exactly one impl of the trait, or one or more diagnostics - never both, never nothing
        let is_impl = cl.impls == 1 && cl.diags.is_empty();
        let is_diag = cl.impls == 0 && !cl.diags.is_empty();
        if !(is_impl || is_diag) || cl.other_items > 0 {
            prop.push(format!("{}: {} impl block(s) of the trait, {} diagnostic(s), {} other item(s)", tag, cl.impls, cl.diags.len(), cl.other_items));
            continue;
        }
        let want_impl = c["expect"]["impl"].as_bool().unwrap();
        if want_impl != is_impl {
            if want_impl { prop.push(format!("{}: a well-formed declaration was rejected: {:?}", tag, cl.diags.iter().map(|d| &d.0).collect::<Vec<_>>())); }
            else { prop.push(format!("{}: accepted, although it violates {} rule(s) of C10", tag, c["expect"]["must_cover"].as_array().unwrap().len())); }
            continue;
        }
        if is_impl { continue; }
        // every violated rule of the reported scope has a diagnostic at one of its offending positions;
        // every diagnostic sits at an offending position
        let pos = positions(&di);
        let find = |p: &Value| -> Option<Range> {
            let el = p[0].as_str().unwrap();
            let i = p[1].as_u64().unwrap();
            if el == "call_site" { return Some(Range { l1: 1, c1: 0, l2: 1, c2: 0 }); }
            pos.iter().find(|(k, _)| k.0 == el && k.1 == i).map(|(_, r)| *r)
        };
        for v in c["expect"]["must_cover"].as_array().unwrap() {
            let ranges: Vec<Range> = v.as_array().unwrap().iter().filter_map(|p| find(p)).collect();
            if !cl.diags.iter().any(|d| ranges.iter().any(|r| within(r, d.1))) {
                prop.push(format!("{}: no diagnostic at any of the offending positions {} (diagnostics: {:?})", tag, v, cl.diags));
            }
        }
        // .. and each documented option conflict has a diagnostic of its own: the violated conflict rules can be assigned distinct diagnostics, each at
        // one of its rule's offending positions (two rules broken at the same tokens take two diagnostics there)
        {
            let rules: Vec<Vec<usize>> = c["expect"]["own"].as_array().map(|a| a.to_vec()).unwrap_or_default().iter().map(|v| {
                let ranges: Vec<Range> = v.as_array().unwrap().iter().filter_map(|p| find(p)).collect();
                (0..cl.diags.len()).filter(|j| ranges.iter().any(|r| within(r, cl.diags[*j].1))).collect()
            }).collect();
            if rules.iter().all(|r| !r.is_empty()) {
                fn augment(i: usize, rules: &Vec<Vec<usize>>, owner: &mut Vec<Option<usize>>, seen: &mut Vec<bool>) -> bool {
                    for &j in &rules[i] {
                        if seen[j] { continue; }
                        seen[j] = true;
                        if owner[j].is_none() || augment(owner[j].unwrap(), rules, owner, seen) { owner[j] = Some(i); return true; }
                    }
                    false
                }
                let mut owner: Vec<Option<usize>> = vec![None; cl.diags.len()];
                let mut matched = 0;
                for i in 0..rules.len() { let mut seen = vec![false; cl.diags.len()]; if augment(i, &rules, &mut owner, &mut seen) { matched += 1; } }
                if matched < rules.len() {
                    prop.push(format!("{}: {} rules are violated ({}) but only {} of them can be given a diagnostic of their own at their offending positions (diagnostics: {:?})",
                                      tag, rules.len(), c["expect"]["own"], matched, cl.diags));
                }
            }
        }
        let may: Vec<Range> = c["expect"]["may_sit"].as_array().unwrap().iter().filter_map(|p| find(p)).collect();
        for d in &cl.diags {
            if !may.iter().any(|r| within(r, d.1)) {
                prop.push(format!("{}: diagnostic `{}` at {:?} is not at any offending option or member", tag, d.0, d.1));
            }
        }
        let predicted = c["model"].as_array().unwrap().len();
        if predicted != cl.diags.len() { model.push(format!("{}: machine predicted {} diagnostics, observed {}: {:?}", tag, predicted, cl.diags.len(), cl.diags.iter().map(|d| &d.0).collect::<Vec<_>>())); }
    }
    let _ = json!(null);
    (crate::erralg::Outcome { prop, model }, first_src, panicked)
}

// ---------------------------------------------------------------------------------------------------
// impl -> spec: random declarations longer than the exhaustive bounds, recorded for Trace_DeriveOptions.tla

const FIELD_ALPHA: [(&str, &str); 25] = [
    ("rename", "str"), ("rename", "word"), ("default", "word"), ("default", "path"), ("default", "words"), ("with", "path"), ("with", "closure"), ("with", "str"),
    ("skip", "word"), ("skip", "false"), ("skip", "str"), ("map", "str"), ("and_then", "path"), ("map", "closure"), ("multiple", "word"), ("multiple", "false"),
    ("flatten", "word"), ("flatten", "true"), ("flatten", "empty"), ("skip", "empty"), ("bogus", "word"), ("@bare", ""), ("@nv", ""), ("@lit", ""), ("@junk", ""),
];
const VARIANT_ALPHA: [(&str, &str); 12] = [
    ("rename", "str"), ("rename", "true"), ("skip", "word"), ("skip", "false"), ("word", "word"), ("word", "false"), ("word", "str"), ("bogus", "str"), ("@bare", ""), ("@nv", ""), ("@lit", ""), ("@junk", ""),
];
const CONT_ALPHA: [(&str, &str); 34] = [
    ("default", "word"), ("default", "words"), ("rename_all", "rule"), ("rename_all", "str"), ("map", "str"), ("and_then", "str"), ("allow_unknown_fields", "word"),
    ("allow_unknown_fields", "str"), ("attributes", "words"), ("attributes", "str"), ("forward_attrs", "word"), ("forward_attrs", "words"), ("forward_attrs", "empty"), ("from_ident", "word"),
    ("from_word", "path"), ("from_word", "str"), ("from_none", "closure"), ("supports", "shapes"), ("supports", "badshape"), ("supports", "dblprefix"), ("supports", "anybad"), ("supports", "litshape"), ("supports", "nvshape"), ("supports", "pathshape"), ("bound", "preds"), ("bound", "str"), ("::map", "str"), ("::default", "word"), ("bogus", "words"),
    ("bogus", "word"), ("@bare", ""), ("@nv", ""), ("@lit", ""), ("@junk", ""),
];

fn draw(rng: &mut Rng, alpha: &[(&str, &str)], max: usize, clean_bias: bool) -> Vec<Value> {
    let n = rng.below(max + 1);
    (0..n).map(|_| {
        // half of the draws avoid the attribute-syntax items, which end the element's parse early
        let mut p = *rng.pick(alpha);
        if clean_bias && p.0.starts_with('@') && rng.chance(3, 4) { p = *rng.pick(&alpha[..alpha.len() - 4]); }
        json!({"name": p.0, "form": p.1})
    }).collect()
}

pub fn record(rng: &mut Rng, n: usize) -> Vec<Value> {
    const DERIVES: [&str; 6] = ["FromMeta", "FromDeriveInput", "FromField", "FromVariant", "FromTypeParam", "FromAttributes"];
    const SHAPES: [&str; 13] = ["named", "named", "named", "named_attrs", "named_attrs_with", "enum", "enum", "unit", "newtype", "tuple2", "enum0", "tuple0", "named0"];
    let mut out = vec![];
    for _ in 0..n {
        let derive = *rng.pick(&DERIVES);
        let shape = if rng.chance(1, 40) { "union" } else { *rng.pick(&SHAPES) };
        let cont = if rng.chance(1, 3) { vec![] } else { draw(rng, &CONT_ALPHA, 6, true) };
        let v1style = if shape != "enum" { "unit" } else { *rng.pick(&["unit", "unit", "unit", "newtype", "struct", "struct", "tuple2", "tuple0", "struct0"]) };
        let fields = shape == "named" || shape.starts_with("named_attrs") || (shape == "enum" && v1style == "struct");
        let f1 = if fields { draw(rng, &FIELD_ALPHA, 5, true) } else { vec![] };
        let f2 = if shape == "named" || (shape == "enum" && v1style == "struct" && rng.chance(1, 2)) { draw(rng, &FIELD_ALPHA, 5, true) } else { vec![] };
        let v1 = if shape == "enum" { draw(rng, &VARIANT_ALPHA, 4, true) } else { vec![] };
        let v2 = if shape == "enum" { draw(rng, &VARIANT_ALPHA, 4, true) } else { vec![] };
        let mut c = json!({"derive": derive, "shape": shape, "cont": cont, "f1": f1, "f2": f2, "v1": v1, "v2": v2, "v1style": v1style,
                           "f2present": !f2.is_empty(), "v2present": !v2.is_empty()});
        let split = rng.chance(1, 3);
        let src = format!("\n{}", render(&c, split));
        let di: syn::DeriveInput = match syn::parse_str(&src) { Ok(d) => d, Err(e) => panic!("harness: unparsable declaration {:?}: {}", src, e) };
        let (mut is_impl, mut panicked, mut at, mut ndiags) = (false, false, vec![], 0usize);
        match catch(std::panic::AssertUnwindSafe(|| run_derive(derive, &di))) {
            Err(_) => panicked = true,
            Ok(ts) => {
                let cl = classify(ts, derive);
                is_impl = cl.impls == 1 && cl.diags.is_empty();
                let is_diag = cl.impls == 0 && !cl.diags.is_empty();
                if cl.unparsable.is_some() || !(is_impl || is_diag) || cl.other_items > 0 { panicked = true; }
                ndiags = cl.diags.len();
                let pos = positions(&di);
                for d in &cl.diags {
                    if d.1 == (1, 0) { at.push(json!([["call_site", 0]])); continue; }
                    // every position that contains the diagnostic: an option item, its member, the body
                    let all: Vec<Value> = pos.iter().filter(|(_, r)| within(r, d.1)).map(|(k, _)| json!([k.0, k.1])).collect();
                    at.push(if all.is_empty() { json!([["nowhere", 0]]) } else { json!(all) });
                }
            }
        }
        let o = c.as_object_mut().unwrap();
        o.insert("impl".into(), json!(is_impl));
        o.insert("panicked".into(), json!(panicked));
        o.insert("ndiags".into(), json!(ndiags));
        o.insert("at".into(), json!(at));
        o.insert("src".into(), json!(src.trim().replace('\n', " ")));
        out.push(c);
    }
    out
}
