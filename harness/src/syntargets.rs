//! Binding of spec/SynTargets.tla: the fragment table (syn as the oracle) and the replay on the real targets.
use crate::util::*;
use darling::FromMeta;
use serde_json::{json, Value};

pub const FRAGMENTS: [&str; 66] = [
    // string literals (only ever written inside another string: two layers of quoting), a trailing comma, nothing at all
    "\"hello\"", "\"[1, 2]\"", "\"0..5\"", "\"a::b\"", "T: Clone, U: Debug,", "",
    "self", "super", "crate", "type", "r#match",
    "hello::<u8>", "<T as Tr>::Assoc", "a::b::c::d::<[u8; 2]>::e",
    "foo", "a::b", "::a::b", "a::b::<u8>", "Vec::<u8>::new", "self::x", "crate::m::T", "r#type", "r#fn::x", "Self",
    "x + 1", "f(1, 2)", "|a| a + 1", "|| 5", "{ 1 }", "[1, 2, 3]", "[a; 4]", "1..2", "..", "a..=b", "(a, b)", "!x", "a.b", "if c { 1 } else { 2 }", "&x", "x as u8", "m!(a)",
    "5", "-5", "1.5", "'c'", "true", "b\"x\"", "b'x'", "0xff_u8",
    "Vec<u8>", "&'a T", "[u8; 4]", "fn(u8) -> u8", "dyn Tr + Send", "impl Tr", "!", "_", "*const u8", "(T)", "Option<Box<dyn Fn(u8) -> u8>>", "[u8]", "(A, B)",
    "pub", "pub(crate)", "T: Clone, U: 'a", "where T: Clone",
];

const GRAMMARS: [&str; 22] = ["Expr", "Path", "Ident", "ExprArray", "ExprPath", "ExprRange", "WherePreds", "Type", "TypeArray", "TypeBareFn", "TypeImplTrait",
    "TypeInfer", "TypeNever", "TypeParen", "TypePath", "TypePtr", "TypeReference", "TypeSlice", "TypeTraitObject", "TypeTuple", "Visibility", "WhereClause"];

fn toks<T: quote::ToTokens>(t: &T) -> String { t.to_token_stream().to_string() }

/// parse `text` with grammar `g`: the token string of the result (syn is the oracle)
pub fn oracle(g: &str, text: &str) -> Option<String> {
    macro_rules! p { ($t:ty) => { syn::parse_str::<$t>(text).ok().map(|v| toks(&v)) } }
    match g {
        "Expr" => p!(syn::Expr), "Path" => p!(syn::Path), "Ident" => p!(syn::Ident), "ExprArray" => p!(syn::ExprArray), "ExprPath" => p!(syn::ExprPath),
        "ExprRange" => p!(syn::ExprRange), "Type" => p!(syn::Type), "TypeArray" => p!(syn::TypeArray), "TypeBareFn" => p!(syn::TypeBareFn),
        "TypeImplTrait" => p!(syn::TypeImplTrait), "TypeInfer" => p!(syn::TypeInfer), "TypeNever" => p!(syn::TypeNever), "TypeParen" => p!(syn::TypeParen),
        "TypePath" => p!(syn::TypePath), "TypePtr" => p!(syn::TypePtr), "TypeReference" => p!(syn::TypeReference), "TypeSlice" => p!(syn::TypeSlice),
        "TypeTraitObject" => p!(syn::TypeTraitObject), "TypeTuple" => p!(syn::TypeTuple), "Visibility" => p!(syn::Visibility), "WhereClause" => p!(syn::WhereClause),
        "WherePreds" => syn::parse_str::<syn::WhereClause>(&format!("where {}", text)).ok().map(|c| c.predicates.iter().map(toks).collect::<Vec<_>>().join(" , ")),
        _ => panic!("grammar {}", g),
    }
}

fn nv_value(text: &str) -> Option<syn::Expr> {
    let src = format!("#[root(name = {})]\nstruct Demo;", text);
    let di: syn::DeriveInput = syn::parse_str(&src).ok()?;
    let tokens = match &di.attrs[0].meta { syn::Meta::List(l) => l.tokens.clone(), _ => return None };
    let mut nodes = crate::input::split(tokens);
    if nodes.len() != 1 { return None; }
    match nodes.remove(0) { crate::input::Node::Meta(syn::Meta::NameValue(nv)) => Some(nv.value), _ => None }
}

fn variant_of(e: &syn::Expr) -> (String, String) {
    use syn::Expr::*;
    match e {
        Lit(l) => ("Lit".into(), match &l.lit { syn::Lit::Str(_) => "str", syn::Lit::Int(_) => "int", syn::Lit::Float(_) => "float", syn::Lit::Char(_) => "char",
                                                  syn::Lit::Bool(_) => "bool", syn::Lit::ByteStr(_) => "bytestr", syn::Lit::Byte(_) => "byte", _ => "other" }.into()),
        Path(p) => (if p.qself.is_some() { "QPath" } else if p.path.get_ident().is_some() { "Ident" } else { "Path" }.into(), String::new()),
        Array(_) => ("Array".into(), String::new()), Range(_) => ("Range".into(), String::new()), Closure(_) => ("Closure".into(), String::new()),
        _ => ("Other".into(), String::new()),
    }
}

pub fn fragment_table() -> Vec<Value> {
    FRAGMENTS.iter().enumerate().map(|(i, text)| {
        let (bare, lit) = match nv_value(text) { Some(e) => variant_of(&e), None => (String::new(), String::new()) };
        let parses: Vec<&str> = GRAMMARS.iter().filter(|g| oracle(g, text).is_some()).cloned().collect();
        json!({"id": i + 1, "text": text, "bare": bare, "lit": lit, "parses": parses})
    }).collect()
}

fn wrap_groups(e: syn::Expr, n: u64) -> syn::Expr {
    let mut e = e;
    for _ in 0..n { e = syn::Expr::Group(syn::ExprGroup { attrs: vec![], group_token: Default::default(), expr: Box::new(e) }); }
    e
}

fn show_preds(v: Vec<syn::WherePredicate>) -> String { v.iter().map(toks).collect::<Vec<_>>().join(" , ") }

pub fn convert(t: &str, m: &syn::Meta) -> darling::Result<String> {
    macro_rules! c { ($ty:ty) => { <$ty as FromMeta>::from_meta(m).map(|v| toks(&v)) } }
    match t {
        "Expr" => c!(syn::Expr), "Path" => c!(syn::Path), "Ident" => c!(syn::Ident), "ExprArray" => c!(syn::ExprArray), "ExprPath" => c!(syn::ExprPath), "ExprRange" => c!(syn::ExprRange),
        "IdentString" => darling::util::IdentString::from_meta(m).map(|v| toks(v.as_ident())),
        "Callable" => darling::util::Callable::from_meta(m).map(|v| toks(&v)),
        "WherePreds" => <Vec<syn::WherePredicate>>::from_meta(m).map(show_preds),
        "Lit" => c!(syn::Lit), "LitInt" => c!(syn::LitInt), "LitFloat" => c!(syn::LitFloat), "LitStr" => c!(syn::LitStr), "LitChar" => c!(syn::LitChar), "LitBool" => c!(syn::LitBool), "LitByteStr" => c!(syn::LitByteStr),
        "Type" => c!(syn::Type), "TypeArray" => c!(syn::TypeArray), "TypeBareFn" => c!(syn::TypeBareFn), "TypeImplTrait" => c!(syn::TypeImplTrait), "TypeInfer" => c!(syn::TypeInfer),
        "TypeNever" => c!(syn::TypeNever), "TypeParen" => c!(syn::TypeParen), "TypePath" => c!(syn::TypePath), "TypePtr" => c!(syn::TypePtr), "TypeReference" => c!(syn::TypeReference),
        "TypeSlice" => c!(syn::TypeSlice), "TypeTraitObject" => c!(syn::TypeTraitObject), "TypeTuple" => c!(syn::TypeTuple), "Visibility" => c!(syn::Visibility), "WhereClause" => c!(syn::WhereClause),
        _ => panic!("target {}", t),
    }
}

fn grammar_of(t: &str) -> &str { match t { "IdentString" => "Ident", x => x } }

pub fn replay_one(case: &Value) -> (crate::erralg::Outcome, String) {
    let mut prop = vec![];
    let t = case["t"].as_str().unwrap();
    let text = FRAGMENTS[case["frag"].as_u64().unwrap() as usize - 1];
    let quoted = case["spelling"] == "quoted";
    let groups = case["groups"].as_u64().unwrap();
    let written = if quoted { format!("{:?}", text) } else { text.to_string() };
    let tag = format!("{} <- name = {}{}", t, written, if groups > 0 { format!(" (+{} invisible groups)", groups) } else { String::new() });
    let value = match nv_value(&written) { Some(v) => v, None => { prop.push(format!("harness: `{}` is not a name-value item", written)); return (crate::erralg::Outcome { prop, model: vec![] }, tag) } };
    let as_written = toks(&value);
    let meta = syn::Meta::NameValue(syn::MetaNameValue { path: syn::parse_quote!(name), eq_token: Default::default(), value: wrap_groups(value, groups) });
    let r = catch(std::panic::AssertUnwindSafe(|| convert(t, &meta)));
    let r = match r { Err(p) => { prop.push(format!("{}: panicked: {}", tag, p)); return (crate::erralg::Outcome { prop, model: vec![] }, tag) } Ok(r) => r };
    match (case["expect"].as_str().unwrap(), r) {
        ("rejected", Ok(v)) => prop.push(format!("{}: accepted as `{}`; neither the bare value nor the string's contents is of the target's syntax class", tag, v)),
        ("rejected", Err(e)) => if !e.has_span() { prop.push(format!("{}: rejected without a span: {}", tag, e)); },
        (_, Err(e)) => prop.push(format!("{}: rejected ({})", tag, e)),
        ("as_written", Ok(v)) => if v != as_written { prop.push(format!("{}: value prints `{}`, the user wrote `{}`", tag, v, as_written)); },
        ("parsed", Ok(v)) => {
            let want = oracle(grammar_of(t), text).unwrap_or_else(|| "<oracle rejects>".into());
            if v != want { prop.push(format!("{}: value prints `{}`, the contents parsed directly print `{}`", tag, v, want)); }
        }
        (x, _) => panic!("expect {}", x),
    }
    (crate::erralg::Outcome { prop, model: vec![] }, tag)
}

/// Targets whose laws are stated directly by the property: the two expression helpers, whole meta items,
/// path lists, vectors of literals, numeric arrays.
pub fn extras() -> (Vec<String>, u64) {
    let mut why = vec![];
    let mut n = 0u64;
    let meta_of = |text: &str| -> syn::Meta {
        let src = format!("#[root({})]\nstruct Demo;", text);
        let di: syn::DeriveInput = syn::parse_str(&src).unwrap_or_else(|e| panic!("{}: {}", src, e));
        let tokens = match &di.attrs[0].meta { syn::Meta::List(l) => l.tokens.clone(), _ => unreachable!() };
        let mut nodes = crate::input::split(tokens);
        if nodes.is_empty() { panic!("harness: `{}` does not split into items", text); }
        match nodes.remove(0) { crate::input::Node::Meta(m) => m, _ => unreachable!() }
    };
    // the helpers differ only on string literals
    for text in FRAGMENTS.iter() {
        for quoted in [false, true] {
            let written = if quoted { format!("{:?}", text) } else { text.to_string() };
            if nv_value(&written).is_none() { continue; }
            if !quoted && text.starts_with('"') { continue; }       // the bare spelling of a string literal is the quoted spelling of its contents
            let m = meta_of(&format!("name = {}", written));
            let value = match &m { syn::Meta::NameValue(nv) => toks(&nv.value), _ => unreachable!() };
            n += 2;
            let p = darling::util::parse_expr::preserve_str_literal(&m).map(|e| toks(&e));
            let q = darling::util::parse_expr::parse_str_literal(&m).map(|e| toks(&e));
            if p.as_ref().ok() != Some(&value) { why.push(format!("preserve_str_literal(name = {}) gives {:?}", written, p.map_err(|e| e.to_string()))); }
            let is_str = matches!(&m, syn::Meta::NameValue(nv) if matches!(&nv.value, syn::Expr::Lit(l) if matches!(l.lit, syn::Lit::Str(_))));
            let want = if is_str { oracle("Expr", text) } else { Some(value.clone()) };
            match (q, want) {
                (Ok(v), Some(w)) => if v != w { why.push(format!("parse_str_literal(name = {}) prints `{}`, expected `{}`", written, v, w)); },
                (Ok(v), None) => why.push(format!("parse_str_literal(name = {}) accepted `{}` although the contents are not an expression", written, v)),
                (Err(e), Some(_)) => why.push(format!("parse_str_literal(name = {}) rejected: {}", written, e)),
                (Err(e), None) => if !e.has_span() { why.push(format!("parse_str_literal(name = {}): unspanned error", written)); },
            }
        }
    }
    for text in ["name", "name(a, b = 1)", "name = 5", "name = x + 1", "a::b(c)"] {
        n += 3;
        let m = meta_of(text);
        for (who, r) in [("preserve_str_literal", darling::util::parse_expr::preserve_str_literal(&m).map(|e| toks(&e))), ("parse_str_literal", darling::util::parse_expr::parse_str_literal(&m).map(|e| toks(&e)))] {
            if !matches!(m, syn::Meta::NameValue(_)) && r.is_ok() { why.push(format!("{}({}) accepted a non name-value item", who, text)); }
        }
        match syn::Meta::from_meta(&m) { Ok(v) => if toks(&v) != toks(&m) { why.push(format!("Meta <- {}: prints `{}`", text, toks(&v))); }, Err(e) => why.push(format!("Meta <- {}: rejected {}", text, e)) }
    }
    // path lists
    for (text, ok) in [("name(a, b::c, ::d, r#type)", true), ("name()", true), ("name(a, b = 1)", false), ("name(a, \"x\")", false), ("name = a", false), ("name", false)] {
        n += 1;
        let m = meta_of(text);
        match darling::util::PathList::from_meta(&m) {
            Ok(v) => {
                if !ok { why.push(format!("PathList <- {}: accepted", text)); }
                let want: Vec<String> = match &m { syn::Meta::List(l) => crate::input::split(l.tokens.clone()).iter().map(|x| match x { crate::input::Node::Meta(mm) => toks(mm), crate::input::Node::Lit(l) => toks(l) }).collect(), _ => vec![] };
                let got: Vec<String> = v.iter().map(toks).collect();
                if ok && got != want { why.push(format!("PathList <- {}: {:?} vs {:?}", text, got, want)); }
            }
            Err(e) => { if ok { why.push(format!("PathList <- {}: rejected {}", text, e)); } if !e.has_span() { why.push(format!("PathList <- {}: unspanned error", text)); } }
        }
    }
    // vectors of literals: list form, bare array, quoted array agree; other kinds rejected
    macro_rules! veclit { ($ty:ty, $good:expr, $bad:expr) => {{
        let forms = [format!("name({})", $good), format!("name = [{}]", $good), format!("name = {:?}", format!("[{}]", $good))];
        let mut seen: Vec<String> = vec![];
        for f in &forms {
            n += 1;
            match <Vec<$ty>>::from_meta(&meta_of(f)) { Ok(v) => seen.push(v.iter().map(toks).collect::<Vec<_>>().join(" , ")), Err(e) => why.push(format!("Vec<{}> <- {}: rejected {}", stringify!($ty), f, e)) }
        }
        if seen.len() == 3 && !(seen[0] == seen[1] && seen[1] == seen[2]) { why.push(format!("Vec<{}>: spellings disagree: {:?}", stringify!($ty), seen)); }
        let want = $good.split(',').map(|s| s.trim().to_string()).collect::<Vec<_>>().join(" , ");
        if seen.first().map(|s| s != &want).unwrap_or(false) { why.push(format!("Vec<{}> <- ({}): prints `{}`", stringify!($ty), $good, seen[0])); }
        for f in [format!("name({})", $bad), format!("name = [{}]", $bad)] {
            n += 1;
            match <Vec<$ty>>::from_meta(&meta_of(&f)) { Ok(_) => why.push(format!("Vec<{}> <- {}: accepted a literal of another kind", stringify!($ty), f)), Err(e) => if !e.has_span() { why.push(format!("Vec<{}> <- {}: unspanned error", stringify!($ty), f)); } }
        }
    }}}
    veclit!(syn::LitInt, "1, 2, 0x1f", "1, \"x\"");
    veclit!(syn::LitStr, "\"a\", \"b c\"", "\"a\", 1");
    veclit!(syn::LitFloat, "1.5, 2e3", "1.5, 2");
    veclit!(syn::LitChar, "'a', 'b'", "'a', \"b\"");
    veclit!(syn::LitBool, "true, false", "true, 1");
    veclit!(syn::LitByteStr, "b\"a\", b\"b\"", "b\"a\", \"b\"");
    // numeric arrays
    macro_rules! numarr { ($ty:ty) => {{
        for (f, want) in [("name = [1, 2, 3]", Some(vec![1u64, 2, 3])), ("name = \"[4, 5]\"", Some(vec![4, 5])), ("name = []", Some(vec![])), ("name = [1, \"x\"]", None), ("name = [1, x]", None), ("name = 5", None), ("name(1, 2)", None), ("name = [1, 99999999999999999999999]", None)] {
            n += 1;
            match (<Vec<$ty>>::from_meta(&meta_of(f)), want) {
                (Ok(v), Some(w)) => if v.iter().map(|x| *x as u64).collect::<Vec<_>>() != w { why.push(format!("Vec<{}> <- {}: {:?}", stringify!($ty), f, v)); },
                (Ok(v), None) => why.push(format!("Vec<{}> <- {}: accepted as {:?}", stringify!($ty), f, v)),
                (Err(e), Some(_)) => why.push(format!("Vec<{}> <- {}: rejected {}", stringify!($ty), f, e)),
                (Err(e), None) => if !e.has_span() { why.push(format!("Vec<{}> <- {}: unspanned error", stringify!($ty), f)); },
            }
        }
    }}}
    numarr!(u8); numarr!(u16); numarr!(u32); numarr!(u64); numarr!(usize);
    (why, n)
}
