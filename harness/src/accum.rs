//! Binding of spec/Accumulator.tla to darling::error::Accumulator.
use crate::util::*;
use darling::error::Accumulator;
use darling::Error;
use serde_json::{json, Value};

fn mk(id: &str) -> Error {
    if let Some(rest) = id.strip_prefix('b') {
        Error::multiple(vec![Error::custom(format!("b{}x", rest)), Error::custom(format!("b{}y", rest))]).at(id)
    } else {
        Error::custom(id)
    }
}

fn id_of(e: &Error, ids: &[String]) -> String {
    let d = e.to_string();
    for i in ids {
        if mk(i).to_string() == d && mk(i).len() == e.len() {
            return i.clone();
        }
    }
    format!("?{}", d)
}

fn err_res(e: Error, ids: &[String]) -> Value {
    // Error::multiple(recorded): one recorded error is that error, several are its children in order
    let n_leaves = e.len();
    let single = id_of(&e, ids);
    let es: Vec<String> = if !single.starts_with('?') { vec![single] } else { e.into_iter().map(|c| id_of(&c, ids)).collect() };
    json!({"t": "err", "v": 0, "n": es.len(), "es": es, "leaves": n_leaves})
}

fn first_int(s: &str) -> u64 {
    let mut cur = String::new();
    for c in s.chars() {
        if c.is_ascii_digit() { cur.push(c) } else if !cur.is_empty() { break }
    }
    cur.parse().unwrap_or(0)
}

pub const ORIGINAL: &str = "original-panic-payload";
thread_local! { static START_DEFAULT: std::cell::Cell<bool> = std::cell::Cell::new(false); }     // alternate the two ways of making an accumulator

/// Apply one operation; returns the observed result in the spec's Res shape.
pub fn apply(acc: &mut Option<Accumulator>, op: &Value, ids: &[String]) -> Value {
    let name = op["name"].as_str().unwrap();
    let e = op["e"].as_str().unwrap_or("");
    let v = op["v"].as_i64().unwrap_or(0);
    let unit = json!({"t": "unit", "v": 0, "es": [], "n": 0});
    match name {
        "push" => { acc.as_mut().unwrap().push(mk(e)); unit }
        "handle_ok" => match acc.as_mut().unwrap().handle(Ok::<i64, Error>(v)) {
            Some(x) => json!({"t": "some", "v": x, "es": [], "n": 0}),
            None => json!({"t": "none", "v": 0, "es": [], "n": 0}),
        },
        "handle_err" => match acc.as_mut().unwrap().handle(Err::<i64, Error>(mk(e))) {
            Some(x) => json!({"t": "some", "v": x, "es": [], "n": 0}),
            None => json!({"t": "none", "v": 0, "es": [], "n": 0}),
        },
        "handle_in_ok" => match acc.as_mut().unwrap().handle_in(|| Ok::<i64, Error>(v)) {
            Some(x) => json!({"t": "some", "v": x, "es": [], "n": 0}),
            None => json!({"t": "none", "v": 0, "es": [], "n": 0}),
        },
        "handle_in_err" => match acc.as_mut().unwrap().handle_in(|| Err::<i64, Error>(mk(e))) {
            Some(x) => json!({"t": "some", "v": x, "es": [], "n": 0}),
            None => json!({"t": "none", "v": 0, "es": [], "n": 0}),
        },
        "extend" => {
            let es: Vec<Error> = op["es"].as_array().unwrap().iter().map(|x| mk(x.as_str().unwrap())).collect();
            // every other call through an iterator that does not know its length (size_hint = (0, Some(n)))
            if es.len() % 2 == 0 { acc.as_mut().unwrap().extend(es.into_iter().filter(|_| true)); } else { acc.as_mut().unwrap().extend(es); }
            unit
        }
        "finish_with" => match acc.take().unwrap().finish_with(v) {
            Ok(x) => json!({"t": "ok", "v": x, "es": [], "n": 0}),
            Err(e) => err_res(e, ids),
        },
        "finish" => match acc.take().unwrap().finish() {
            Ok(()) => json!({"t": "ok", "v": 0, "es": [], "n": 0}),
            Err(e) => err_res(e, ids),
        },
        "into_inner" => {
            let es: Vec<String> = acc.take().unwrap().into_inner().iter().map(|e| id_of(e, ids)).collect();
            json!({"t": "vec", "v": 0, "n": es.len(), "es": es})
        }
        "checkpoint" => match acc.take().unwrap().checkpoint() {
            Ok(a) => { *acc = Some(a); json!({"t": "ok_acc", "v": 0, "es": [], "n": 0}) }
            Err(e) => err_res(e, ids),
        },
        "drop" => {
            let a = acc.take().unwrap();
            match catch(std::panic::AssertUnwindSafe(move || drop(a))) {
                Err(msg) => json!({"t": "panic", "v": 0, "es": [], "n": first_int(&msg), "msg": msg}),
                Ok(()) => json!({"t": "nopanic", "v": 0, "es": [], "n": 0}),
            }
        }
        "unwind_drop" => {
            let a = acc.take().unwrap();
            if let Ok(p) = std::env::var("VH_MARKER") {
                let _ = std::fs::write(p, json!({"op": op}).to_string());
            }
            let r = catch(std::panic::AssertUnwindSafe(move || { let _live = a; panic!("{}", ORIGINAL); }));
            if let Ok(p) = std::env::var("VH_MARKER") { let _ = std::fs::remove_file(p); }
            match r {
                Err(msg) if msg == ORIGINAL => json!({"t": "unwound", "v": 0, "es": [], "n": 0}),
                Err(msg) => json!({"t": "other_panic", "v": 0, "es": [], "n": 0, "msg": msg}),
                Ok(()) => json!({"t": "nopanic", "v": 0, "es": [], "n": 0}),
            }
        }
        _ => panic!("op {}", name),
    }
}

fn same(exp: &Value, obs: &Value) -> bool {
    ["t", "v", "es", "n"].iter().all(|k| exp[*k] == obs[*k])
}

pub fn replay_one(case: &Value, ids: &[String]) -> crate::erralg::Outcome {
    let mut out = crate::erralg::Outcome { prop: vec![], model: vec![] };
    let mut acc = Some(if START_DEFAULT.with(|c| { let v = c.get(); c.set(!v); v }) { Accumulator::default() } else { Error::accumulator() });
    for (i, h) in case["hist"].as_array().unwrap().iter().enumerate() {
        let r = catch(std::panic::AssertUnwindSafe(|| apply(&mut acc, &h["op"], ids)));
        match r {
            Err(p) => { out.prop.push(format!("step {} {}: unexpected panic {}", i + 1, h["op"]["name"], p)); return out; }
            Ok(obs) => {
                if !same(&h["res"], &obs) {
                    out.prop.push(format!("step {} {}: expected {} observed {}", i + 1, h["op"], h["res"], obs));
                    break;
                }
                if obs["t"] == "err" {
                    // bundling keeps every leaf of every recorded error
                    let want: usize = obs["es"].as_array().unwrap().iter().map(|x| mk(x.as_str().unwrap()).len()).sum();
                    if obs["leaves"].as_u64().unwrap() as usize != want {
                        out.prop.push(format!("step {}: error has {} leaves, recorded errors have {}", i + 1, obs["leaves"], want));
                    }
                }
            }
        }
    }
    // final state: a live accumulator still holds exactly the spec's vector (and is defused here)
    match acc.take() {
        Some(a) => {
            let es: Vec<Value> = a.into_inner().iter().map(|e| Value::String(id_of(e, ids))).collect();
            if case["live"] != true || Value::Array(es.clone()) != case["errs"] {
                out.prop.push(format!("final state: expected live={} errs={} observed live errs={:?}", case["live"], case["errs"], es));
            }
        }
        None => {
            if case["live"] == true && out.prop.is_empty() {
                out.prop.push("final state: expected a live accumulator".into());
            }
        }
    }
    out
}

/// Random histories on a real accumulator; one event per call with its observed result.
pub fn record(rng: &mut Rng, ops: usize, out: &mut Vec<Value>) {
    let ids: Vec<String> = ["e1", "e2", "e4", "b3"].iter().map(|s| s.to_string()).collect();
    out.push(json!({"op": {"name": "reset", "e": "", "v": 0, "es": []}, "res": {"t": "unit", "v": 0, "es": [], "n": 0}}));
    let mut acc = Some(if START_DEFAULT.with(|c| { let v = c.get(); c.set(!v); v }) { Accumulator::default() } else { Error::accumulator() });
    for k in 0..ops {
        let last = k + 1 == ops;
        let e = rng.pick(&ids).clone();
        let v = (rng.below(3) + 1) as i64;
        let choice = if last { 100 } else { rng.below(100) };
        let op = match choice {
            0..=24 => json!({"name": "push", "e": e, "v": 0, "es": []}),
            25..=34 => json!({"name": "handle_ok", "e": "", "v": v, "es": []}),
            35..=49 => json!({"name": "handle_err", "e": e, "v": 0, "es": []}),
            50..=57 => json!({"name": "handle_in_ok", "e": "", "v": v, "es": []}),
            58..=69 => json!({"name": "handle_in_err", "e": e, "v": 0, "es": []}),
            70..=89 => {
                let n = rng.below(4);
                let es: Vec<String> = (0..n).map(|_| rng.pick(&ids).clone()).collect();
                json!({"name": "extend", "e": "", "v": 0, "es": es})
            }
            90..=94 => json!({"name": "checkpoint", "e": "", "v": 0, "es": []}),
            _ => match rng.below(5) {
                0 => json!({"name": "finish", "e": "", "v": 0, "es": []}),
                1 => json!({"name": "finish_with", "e": "", "v": v, "es": []}),
                2 => json!({"name": "into_inner", "e": "", "v": 0, "es": []}),
                3 => json!({"name": "drop", "e": "", "v": 0, "es": []}),
                _ => json!({"name": "unwind_drop", "e": "", "v": 0, "es": []}),
            },
        };
        let obs = match catch(std::panic::AssertUnwindSafe(|| apply(&mut acc, &op, &ids))) {
            Ok(o) => o,
            Err(p) => json!({"t": "unexpected_panic", "v": 0, "es": [], "n": 0, "msg": p}),
        };
        let res = json!({"t": obs["t"], "v": obs["v"], "es": obs["es"], "n": obs["n"]});
        out.push(json!({"op": op, "res": res}));
        if acc.is_none() { break; }
    }
    if let Some(a) = acc.take() { let _ = a.into_inner(); }
}
