fn main() { println!("vh"); }
