use serde_json::{json, Value};
use std::io::Write;
use vh::util::*;

fn usage() -> ! {
    eprintln!("usage: vh replay <module> <tlc-output> | vh record <module> <seed> <runs> <ops> <out.ndjson>");
    std::process::exit(2)
}

fn load_cases(path: &str) -> Vec<Value> {
    if path.ends_with(".ndjson") { read_ndjson(path) } else { read_tagged(path, "REPLAY") }
}

fn main() { vh::util::run_main(real_main) }

fn real_main() {
    let args: Vec<String> = std::env::args().collect();
    if args.len() < 3 { usage() }
    match (args[1].as_str(), args[2].as_str()) {
        ("replay", "erralg") => {
            let cx = vh::erralg::Ctx::new();
            let cases = load_cases(&args[3]);
            let mut prop: Vec<Value> = vec![];
            let mut model: Vec<Value> = vec![];
            let mut nprop = 0usize;
            let mut nmodel = 0usize;
            for c in &cases {
                let o = vh::erralg::replay_one(&cx, c);
                if !o.prop.is_empty() {
                    nprop += 1;
                    if prop.len() < 20 { prop.push(json!({"case": c, "why": o.prop})); }
                }
                if !o.model.is_empty() {
                    nmodel += 1;
                    if model.len() < 5 { model.push(json!({"case": c, "why": o.model})); }
                }
            }
            let samples: Vec<&Value> = cases.iter().step_by((cases.len() / 3).max(1)).take(3).collect();
            println!("{}", json!({"cases": cases.len(), "prop_mismatch": nprop, "model_drift": nmodel,
                                   "prop": prop, "model": model, "samples": samples}));
        }
        ("replay", "accum") => {
            let cases = load_cases(&args[3]);
            let ids: Vec<String> = ["e1", "e2", "e4", "b3"].iter().map(|s| s.to_string()).collect();
            let mut prop: Vec<Value> = vec![];
            let mut nprop = 0usize;
            for c in &cases {
                let o = vh::accum::replay_one(c, &ids);
                if !o.prop.is_empty() {
                    nprop += 1;
                    if prop.len() < 20 { prop.push(json!({"case": c, "why": o.prop})); }
                }
            }
            let samples: Vec<&Value> = cases.iter().step_by((cases.len() / 3).max(1)).take(3).collect();
            println!("{}", json!({"cases": cases.len(), "prop_mismatch": nprop, "model_drift": 0, "prop": prop, "model": [], "samples": samples}));
        }
        ("replay", "maps") => {
            let cases = load_cases(&args[3]);
            let vt: usize = std::env::var("VH_VTYPES").ok().and_then(|s| s.parse().ok()).unwrap_or(5);
            let mut prop: Vec<Value> = vec![];
            let mut model: Vec<Value> = vec![];
            let (mut nprop, mut nmodel) = (0usize, 0usize);
            for c in &cases {
                let o = vh::maps::replay_one(c, vt);
                if !o.prop.is_empty() {
                    nprop += 1;
                    if prop.len() < 50 { prop.push(json!({"case": c, "why": o.prop, "key": format!("maps:{}:{}", c["kind"].as_str().unwrap(), vh::maps::source_of(c))})); }
                }
                if !o.model.is_empty() { nmodel += 1; if model.len() < 5 { model.push(json!({"case": c, "why": o.model})); } }
            }
            let samples: Vec<Value> = cases.iter().step_by((cases.len() / 3).max(1)).take(3).map(|c| json!({"kind": c["kind"], "source": vh::maps::source_of(c), "expect": c["expect"]})).collect();
            println!("{}", json!({"cases": cases.len(), "prop_mismatch": nprop, "model_drift": nmodel, "prop": prop, "model": model, "samples": samples,
                                   "counts": {"instantiation_runs": cases.len() * if vt > 1 { 9 } else { 2 }}}));
        }
        ("simtable", _) => {
            // similarity table for Receiver.tla: dense ranks of strsim::jaro_winkler and the 0.8 threshold bit
            let names: Value = serde_json::from_str(&std::fs::read_to_string(&args[2]).unwrap()).unwrap();
            let us: Vec<String> = names["unknown"].as_array().unwrap().iter().map(|s| s.as_str().unwrap().to_string()).collect();
            let cs: Vec<String> = names["cands"].as_array().unwrap().iter().map(|s| s.as_str().unwrap().to_string()).collect();
            let mut all: Vec<f64> = vec![];
            for u in &us { for c in &cs { all.push(strsim::jaro_winkler(u, c)); } }
            let mut sorted = all.clone();
            sorted.sort_by(|a, b| a.partial_cmp(b).unwrap());
            sorted.dedup();
            let mut f = std::io::BufWriter::new(std::fs::File::create(&args[3]).unwrap());
            let mut k = 0;
            for u in &us {
                let mut row = vec![];
                for c in &cs {
                    let s = all[k]; k += 1;
                    let rank = sorted.binary_search_by(|x| x.partial_cmp(&s).unwrap()).unwrap() + 1;
                    row.push(json!({"c": c, "rank": rank, "above": s > 0.8}));
                }
                writeln!(f, "{}", json!({"u": u, "cs": row})).unwrap();
            }
            println!("{}", json!({"unknown": us.len(), "cands": cs.len()}));
        }
        ("replay", "nmg") => {
            let cases = load_cases(&args[3]);
            let mut prop: Vec<Value> = vec![];
            let mut nprop = 0usize;
            let mut unspec = 0usize;
            for (i, c) in cases.iter().enumerate() {
                if c["unspecified"] == true { unspec += 1; }
                let (o, src) = vh::nmg::replay_one(c, i);
                if !o.prop.is_empty() {
                    nprop += 1;
                    if prop.len() < 40 { prop.push(json!({"case": c, "why": o.prop, "key": format!("nmg:{}", src)})); }
                }
            }
            let samples: Vec<Value> = cases.iter().enumerate().step_by((cases.len() / 3).max(1)).take(3).map(|(i, c)| json!({"ts": c["ts"], "source": vh::nmg::materialise(c["ts"].as_array().unwrap(), i), "expect": c["expect"]})).collect();
            println!("{}", json!({"cases": cases.len(), "prop_mismatch": nprop, "model_drift": 0, "unspecified": unspec, "prop": prop, "model": [], "samples": samples,
                                   "counts": {"token_streams_parsed": cases.len() * 3}}));
        }
        ("replay", "routing") => {
            let cases = load_cases(&args[3]);
            let mut prop: Vec<Value> = vec![];
            let mut model: Vec<Value> = vec![];
            let (mut nprop, mut nmodel) = (0usize, 0usize);
            for (i, c) in cases.iter().enumerate() {
                let o = vh::routing::replay_one(c, i);
                if !o.prop.is_empty() { nprop += 1; if prop.len() < 40 { prop.push(json!({"case": c, "why": o.prop, "key": format!("routing:{}:{}:{}", c["S"], c["item"], c["mode"])})); } }
                if !o.model.is_empty() { nmodel += 1; if model.len() < 5 { model.push(json!({"case": c, "why": o.model})); } }
            }
            let samples: Vec<&Value> = cases.iter().step_by((cases.len() / 3).max(1)).take(3).collect();
            println!("{}", json!({"cases": cases.len(), "prop_mismatch": nprop, "model_drift": nmodel, "prop": prop, "model": model, "samples": samples}));
        }
        ("replay", "scalars") => {
            let cases = load_cases(&args[3]);
            let mut prop: Vec<Value> = vec![];
            let (mut nprop, mut skipped) = (0usize, 0usize);
            let mut samples: Vec<Value> = vec![];
            for (i, c) in cases.iter().enumerate() {
                let (o, tag, skip) = vh::scalars::replay_int(c);
                if skip { skipped += 1; }
                if i % (cases.len() / 3).max(1) == 0 && samples.len() < 3 { samples.push(json!({"case": tag, "expect": c["expect"]})); }
                if !o.prop.is_empty() { nprop += 1; if prop.len() < 40 { prop.push(json!({"case": c, "why": o.prop, "key": format!("scalars:{}", tag)})); } }
            }
            println!("{}", json!({"cases": cases.len(), "prop_mismatch": nprop, "model_drift": 0, "prop": prop, "model": [], "samples": samples, "counts": {"not_lexable_skipped": skipped}}));
        }
        ("replay", "scalarforms") => {
            let cases = load_cases(&args[3]);
            let seed: u64 = args.get(4).and_then(|s| s.parse().ok()).unwrap_or(0);
            let nfloat: usize = args.get(5).and_then(|s| s.parse().ok()).unwrap_or(2000);
            let mut prop: Vec<Value> = vec![];
            let mut nprop = 0usize;
            let mut runs = 0u64;
            for c in &cases {
                let (o, r) = vh::scalars::replay_form(c);
                runs += r;
                if !o.prop.is_empty() { nprop += 1; if prop.len() < 40 { prop.push(json!({"case": c, "why": o.prop, "key": format!("scalarforms:{}:{}", c["t"], c["it"])})); } }
            }
            let (fp, fr, fs) = vh::scalars::replay_floats(seed, nfloat);
            nprop += fp.len();
            prop.extend(fp.into_iter().take(20));
            let samples: Vec<Value> = cases.iter().step_by((cases.len() / 2).max(1)).take(2).cloned().chain(fs.into_iter().map(|s| json!({"float_text": s}))).collect();
            println!("{}", json!({"cases": cases.len() as u64 + fr, "prop_mismatch": nprop, "model_drift": 0, "prop": prop, "model": [], "samples": samples,
                                   "counts": {"form_conversions": runs, "float_conversions": fr}}));
        }
        ("replay", "scalars-concrete") => {
            let cases = load_cases(&args[3]);
            let mut prop: Vec<Value> = vec![];
            let mut nprop = 0usize;
            for c in &cases {
                let o = vh::scalars::replay_concrete(c);
                if !o.prop.is_empty() { nprop += 1; if prop.len() < 40 { prop.push(json!({"case": c, "why": o.prop, "key": format!("scalars-concrete:{}:{}:{}:{}", c["t"], c["nz"], c["v"], c["quoted"])})); } }
            }
            let samples: Vec<&Value> = cases.iter().step_by((cases.len() / 3).max(1)).take(3).collect();
            println!("{}", json!({"cases": cases.len(), "prop_mismatch": nprop, "model_drift": 0, "prop": prop, "model": [], "samples": samples}));
        }
        ("replay", "wrappers") => {
            let cases = load_cases(&args[3]);
            let mut prop: Vec<Value> = vec![];
            let mut nprop = 0usize;
            let mut runs = 0u64;
            for c in &cases {
                let (o, r) = vh::wrappers::replay_one(c);
                runs += r;
                if !o.prop.is_empty() { nprop += 1; if prop.len() < 40 { let mut w = o.prop; w.truncate(5); prop.push(json!({"case": c, "why": w, "key": format!("wrappers:{}:{}", c["chain"], c["form"])})); } }
            }
            let samples: Vec<&Value> = cases.iter().step_by((cases.len() / 3).max(1)).take(3).collect();
            println!("{}", json!({"cases": cases.len(), "prop_mismatch": nprop, "model_drift": 0, "prop": prop, "model": [], "samples": samples, "counts": {"conversions_compared": runs}}));
        }
        ("fragments", _) => {
            let rows = vh::syntargets::fragment_table();
            let mut f = std::io::BufWriter::new(std::fs::File::create(&args[2]).unwrap());
            for r in &rows { writeln!(f, "{}", r).unwrap(); }
            println!("{}", json!({"fragments": rows.len()}));
        }
        ("replay", "syntargets") => {
            let cases = load_cases(&args[3]);
            let mut prop: Vec<Value> = vec![];
            let mut nprop = 0usize;
            let mut samples: Vec<Value> = vec![];
            for (i, c) in cases.iter().enumerate() {
                let (o, tag) = vh::syntargets::replay_one(c);
                if i % (cases.len() / 3).max(1) == 0 && samples.len() < 3 { samples.push(json!({"case": tag, "expect": c["expect"]})); }
                if !o.prop.is_empty() { nprop += 1; if prop.len() < 40 { prop.push(json!({"case": c, "why": o.prop, "key": format!("syntargets:{}", tag)})); } }
            }
            let (xw, xn) = vh::syntargets::extras();
            for w in xw.iter().take(20) { nprop += 1; prop.push(json!({"case": {"extra": w}, "why": [w], "key": format!("syntargets-extra:{}", w)})); }
            println!("{}", json!({"cases": cases.len() as u64 + xn, "prop_mismatch": nprop, "model_drift": 0, "prop": prop, "model": [], "samples": samples, "counts": {"helper_and_collection_cases": xn}}));
        }
        ("replay", "sequences") | ("replay", "generics") => {
            let cases = load_cases(&args[3]);
            let t = Templates::new();
            let mut prop: Vec<Value> = vec![];
            let mut model: Vec<Value> = vec![];
            let (mut nprop, mut nmodel) = (0usize, 0usize);
            let mut samples: Vec<Value> = vec![];
            for (i, c) in cases.iter().enumerate() {
                let (o, tag) = if args[2] == "sequences" { vh::sequences::replay_one(&t, c) } else { vh::generics::replay_one(c) };
                if i % (cases.len() / 3).max(1) == 0 && samples.len() < 3 { samples.push(json!({"case": tag, "expect": c["expect"]})); }
                if !o.prop.is_empty() { nprop += 1; if prop.len() < 60 { let mut w = o.prop; w.truncate(3); prop.push(json!({"case": c, "why": w, "key": format!("{}:{}", args[2], tag)})); } }
                if !o.model.is_empty() { nmodel += 1; if model.len() < 5 { model.push(json!({"case": c, "why": o.model})); } }
            }
            println!("{}", json!({"cases": cases.len(), "prop_mismatch": nprop, "model_drift": nmodel, "prop": prop, "model": model, "samples": samples}));
        }
        ("replay", "deriveopts") => {
            let cases = load_cases(&args[3]);
            let mut prop: Vec<Value> = vec![];
            let mut model: Vec<Value> = vec![];
            let (mut nprop, mut nmodel, mut npanic) = (0usize, 0usize, 0usize);
            let mut samples: Vec<Value> = vec![];
            for (i, c) in cases.iter().enumerate() {
                let (o, src, panicked) = vh::deriveopts::replay_one(c, i);
                if panicked { npanic += 1; }
                if i % (cases.len() / 3).max(1) == 0 && samples.len() < 3 { samples.push(json!({"derive": c["derive"], "declaration": src, "expect": c["expect"]})); }
                if !o.prop.is_empty() { nprop += 1; if prop.len() < 5000 { let mut w = o.prop; w.truncate(3); prop.push(json!({"case": c, "why": w, "panicked": panicked, "key": format!("deriveopts:{}:{}", c["derive"].as_str().unwrap(), src.trim().replace('\n', " "))})); } }
                if !o.model.is_empty() { nmodel += 1; if model.len() < 5 { model.push(json!({"case": c, "why": o.model})); } }
            }
            println!("{}", json!({"cases": cases.len(), "prop_mismatch": nprop, "model_drift": nmodel, "prop": prop, "model": model, "samples": samples, "counts": {"derive_panics": npanic}}));
        }
        ("replay", "usage") | ("replay", "implbounds") => {
            let cases = load_cases(&args[3]);
            let mut prop: Vec<Value> = vec![];
            let mut nprop = 0usize;
            let mut samples: Vec<Value> = vec![];
            for (i, c) in cases.iter().enumerate() {
                let (o, tag) = if args[2] == "usage" { vh::usage::replay_type(c) } else { vh::usage::replay_bounds(c, i) };
                if i % (cases.len() / 3).max(1) == 0 && samples.len() < 3 { samples.push(json!({"case": tag, "expect": c["expect"]})); }
                if !o.prop.is_empty() { nprop += 1; if prop.len() < 60 { let mut w = o.prop; w.truncate(3); prop.push(json!({"case": c, "why": w, "key": format!("{}:{}", args[2], tag)})); } }
            }
            println!("{}", json!({"cases": cases.len(), "prop_mismatch": nprop, "model_drift": 0, "prop": prop, "model": [], "samples": samples}));
        }
        ("record", "deriveopts") => {
            let seed: u64 = args[3].parse().unwrap();
            let n: usize = args[4].parse().unwrap();
            let mut rng = Rng::new(seed);
            let ev = vh::deriveopts::record(&mut rng, n);
            let mut f = std::io::BufWriter::new(std::fs::File::create(&args[5]).unwrap());
            for e in &ev { writeln!(f, "{}", e).unwrap(); }
            let impls = ev.iter().filter(|e| e["impl"] == true).count();
            println!("{}", json!({"events": ev.len(), "runs": ev.len(), "accepted": impls, "panicked": ev.iter().filter(|e| e["panicked"] == true).count()}));
        }
        ("record", "accum") => {
            let seed: u64 = args[3].parse().unwrap();
            let runs: usize = args[4].parse().unwrap();
            let ops: usize = args[5].parse().unwrap();
            let mut rng = Rng::new(seed);
            let mut ev = vec![];
            for _ in 0..runs { vh::accum::record(&mut rng, ops, &mut ev); }
            let mut f = std::io::BufWriter::new(std::fs::File::create(&args[6]).unwrap());
            for e in &ev { writeln!(f, "{}", e).unwrap(); }
            println!("{}", json!({"events": ev.len(), "runs": runs}));
        }
        ("record", "erralg") => {
            let seed: u64 = args[3].parse().unwrap();
            let runs: usize = args[4].parse().unwrap();
            let ops: usize = args[5].parse().unwrap();
            let cx = vh::erralg::Ctx::new();
            let mut rng = Rng::new(seed);
            let mut ev = vec![];
            for _ in 0..runs {
                vh::erralg::record(&cx, &mut rng, ops, 6, 12, &mut ev);
            }
            let mut f = std::io::BufWriter::new(std::fs::File::create(&args[6]).unwrap());
            for e in &ev { writeln!(f, "{}", e).unwrap(); }
            println!("{}", json!({"events": ev.len(), "runs": runs}));
        }
        _ => usage(),
    }
}
