//! Binding of spec/Scalars.tla: symbolic integer literals materialised with exact decimal arithmetic.
use crate::input::Range;
use crate::util::*;
use darling::FromMeta;
use serde_json::{json, Value};

const ANCHORS: [&str; 17] = [
    "-170141183460469231731687303715884105728", "-9223372036854775808", "-2147483648", "-32768", "-128", "0", "127", "255",
    "32767", "65535", "2147483647", "4294967295", "9223372036854775807", "18446744073709551615",
    "170141183460469231731687303715884105727", "340282366920938463463374607431768211455",
    "10000000000000000000000000000000000000000",
];

/// magnitude (decimal digits, most significant first) +- small delta, with sign
fn mag_add(m: &[u8], d: u32) -> Vec<u8> {
    let mut out = m.to_vec();
    let mut carry = d;
    for x in out.iter_mut().rev() {
        let s = *x as u32 + carry % 10;
        carry /= 10;
        *x = (s % 10) as u8;
        carry += s / 10;
    }
    while carry > 0 { out.insert(0, (carry % 10) as u8); carry /= 10; }
    out
}
fn mag_sub(m: &[u8], d: u32) -> Vec<u8> {
    // m >= d assumed
    let mut out = m.to_vec();
    let mut borrow = d as i64;
    for x in out.iter_mut().rev() {
        let mut s = *x as i64 - borrow % 10;
        borrow /= 10;
        if s < 0 { s += 10; borrow += 1; }
        *x = s as u8;
    }
    while out.len() > 1 && out[0] == 0 { out.remove(0); }
    out
}
fn to_u(m: &[u8]) -> Option<u32> {
    if m.len() > 9 { None } else { Some(m.iter().fold(0u32, |a, d| a * 10 + *d as u32)) }
}

/// (negative, magnitude digits) of anchor + delta
pub fn value(anchor: usize, delta: i64) -> (bool, Vec<u8>) {
    let a = ANCHORS[anchor - 1];
    let neg = a.starts_with('-');
    let m: Vec<u8> = a.trim_start_matches('-').bytes().map(|b| b - b'0').collect();
    let (neg, m) = if !neg {
        if delta >= 0 { (false, mag_add(&m, delta as u32)) }
        else if to_u(&m).map(|x| x < (-delta) as u32).unwrap_or(false) { (true, mag_sub(&[(-delta) as u8], to_u(&m).unwrap())) }
        else { (false, mag_sub(&m, (-delta) as u32)) }
    } else if delta <= 0 { (true, mag_add(&m, (-delta) as u32)) } else { (true, mag_sub(&m, delta as u32)) };
    let zero = m.iter().all(|d| *d == 0);
    (neg && !zero, m)
}

fn dec(m: &[u8]) -> String { m.iter().map(|d| (b'0' + d) as char).collect() }

fn to_radix(m: &[u8], base: u32) -> String {
    let mut cur = m.to_vec();
    let mut out = vec![];
    while !(cur.len() == 1 && cur[0] == 0) {
        let mut rem = 0u32;
        let mut next = vec![];
        for d in &cur {
            let x = rem * 10 + *d as u32;
            next.push((x / base) as u8);
            rem = x % base;
        }
        while next.len() > 1 && next[0] == 0 { next.remove(0); }
        out.push(std::char::from_digit(rem, base).unwrap());
        cur = next;
    }
    if out.is_empty() { "0".into() } else { out.iter().rev().collect() }
}

pub fn spell(neg: bool, m: &[u8], sp: &Value, ty: &str) -> String {
    let radix = sp["radix"].as_u64().unwrap() as u32;
    let mut digits = if radix == 10 { dec(m) } else { to_radix(m, radix) };
    if sp["under"] == true {
        digits = if digits.len() > 1 { format!("{}_{}", &digits[..1], &digits[1..]) } else { format!("{}_", digits) };
    }
    let prefix = match radix { 16 => "0x", 8 => "0o", 2 => "0b", _ => "" };
    let suffix = match sp["suffix"].as_str().unwrap() { "own" => ty, "other" => if ty == "i64" { "u16" } else { "i64" }, "float" => if m.len() % 2 == 0 { "f32" } else { "f64" }, _ => "" };
    let sign = if neg { "-" } else if sp["plus"] == true { "+" } else { "" };
    let lit = format!("{}{}{}{}", sign, prefix, digits, suffix);
    if sp["quoted"] == true { format!("\"{}\"", lit) } else { lit }
}

fn conv<T: FromMeta + std::fmt::Display>(m: &syn::Meta) -> darling::Result<String> { T::from_meta(m).map(|v| v.to_string()) }

pub fn convert_int(ty: &str, nz: bool, m: &syn::Meta) -> darling::Result<String> {
    use std::num::*;
    match (ty, nz) {
        ("i8", false) => conv::<i8>(m), ("u8", false) => conv::<u8>(m), ("i16", false) => conv::<i16>(m), ("u16", false) => conv::<u16>(m),
        ("i32", false) => conv::<i32>(m), ("u32", false) => conv::<u32>(m), ("i64", false) => conv::<i64>(m), ("u64", false) => conv::<u64>(m),
        ("i128", false) => conv::<i128>(m), ("u128", false) => conv::<u128>(m), ("isize", false) => conv::<isize>(m), ("usize", false) => conv::<usize>(m),
        ("i8", true) => conv::<NonZeroI8>(m), ("u8", true) => conv::<NonZeroU8>(m), ("i16", true) => conv::<NonZeroI16>(m), ("u16", true) => conv::<NonZeroU16>(m),
        ("i32", true) => conv::<NonZeroI32>(m), ("u32", true) => conv::<NonZeroU32>(m), ("i64", true) => conv::<NonZeroI64>(m), ("u64", true) => conv::<NonZeroU64>(m),
        ("i128", true) => conv::<NonZeroI128>(m), ("u128", true) => conv::<NonZeroU128>(m), ("isize", true) => conv::<NonZeroIsize>(m), ("usize", true) => conv::<NonZeroUsize>(m),
        _ => panic!("type {}", ty),
    }
}

pub fn parse_item(text: &str) -> Option<(syn::Meta, Range)> {
    let src = format!("#[root(name = {})]\nstruct Demo;", text);
    let di: syn::DeriveInput = syn::parse_str(&src).ok()?;
    let tokens = match &di.attrs[0].meta { syn::Meta::List(l) => l.tokens.clone(), _ => return None };
    let mut nodes = crate::input::split(tokens);
    if nodes.len() != 1 { return None; }
    match nodes.remove(0) { crate::input::Node::Meta(m) => { let r = Range::of(syn::spanned::Spanned::span(&m)); Some((m, r)) } _ => None }
}

pub fn replay_int(case: &Value) -> (crate::erralg::Outcome, String, bool) {
    let mut prop = vec![];
    let ty = case["t"].as_str().unwrap();
    let nz = case["nz"].as_bool().unwrap();
    let (neg, m) = value(case["anchor"].as_u64().unwrap() as usize, case["delta"].as_i64().unwrap());
    let text = spell(neg, &m, &case["sp"], ty);
    let tag = format!("{}{} <- name = {}", if nz { "NonZero " } else { "" }, ty, text);
    let (meta, item) = match parse_item(&text) { Some(x) => x, None => return (crate::erralg::Outcome { prop, model: vec![] }, tag, true) };
    let r = catch(std::panic::AssertUnwindSafe(|| convert_int(ty, nz, &meta)));
    let want = format!("{}{}", if neg { "-" } else { "" }, dec(&m));
    match r {
        Err(p) => prop.push(format!("{}: panicked: {}", tag, p)),
        Ok(Ok(v)) => {
            if !case["expect"]["ok"].as_bool().unwrap() { prop.push(format!("{}: accepted as {} although the target's standard parsing rejects it", tag, v)); }
            else if v != want { prop.push(format!("{}: yields {} instead of the denoted value {}", tag, v, want)); }
        }
        Ok(Err(e)) => {
            if case["expect"]["ok"].as_bool().unwrap() { prop.push(format!("{}: rejected ({}) although in range", tag, e)); }
            match e.explicit_span() {
                None => prop.push(format!("{}: error `{}` carries no span", tag, e)),
                Some(s) => if !item.contains(&Range::of(s)) { prop.push(format!("{}: error span {:?} outside the item {:?}", tag, Range::of(s), item)); },
            }
        }
    }
    // the same item followed by another one: the position of an item in its list changes nothing
    // (syn folds a sign into the literal only when nothing follows the value)
    if neg && case["sp"]["quoted"] != true {
        let src = format!("#[root(name = {}, zz = 1)]\nstruct Demo;", text);
        if let Ok(di) = syn::parse_str::<syn::DeriveInput>(&src) {
            if let syn::Meta::List(l) = &di.attrs[0].meta {
                let mut nodes = crate::input::split(l.tokens.clone());
                if nodes.len() == 2 { if let crate::input::Node::Meta(m2) = nodes.remove(0) {
                    let r2 = catch(std::panic::AssertUnwindSafe(|| convert_int(ty, nz, &m2)));
                    let eok = case["expect"]["ok"].as_bool().unwrap();
                    match r2 {
                        Err(p) => prop.push(format!("{} (followed by another item): panicked: {}", tag, p)),
                        Ok(Ok(v)) => if !eok { prop.push(format!("{} (followed by another item): accepted as {}", tag, v)); } else if v != want { prop.push(format!("{} (followed by another item): yields {}", tag, v)); },
                        Ok(Err(e)) => if eok { prop.push(format!("{} (followed by another item): rejected ({}) although in range", tag, e)); },
                    }
                } }
            }
        }
    }
    let _ = json!(null);
    (crate::erralg::Outcome { prop, model: vec![] }, tag, false)
}

// ------------------------------------------------------------------------------------------ forms matrix

fn item_texts(it: &Value) -> Vec<String> {
    match it["form"].as_str().unwrap() {
        "word" => vec!["name".into()],
        // lists of every arity, also a single literal of each kind (a list is a list, whatever it holds)
        "list" => ["name(a)", "name()", "name(5)", "name(\"x\")", "name(\"17\")", "name(true)", "name('c')", "name(1.5)", "name(5, 6)", "name(a = 1)"].iter().map(|s| s.to_string()).collect(),
        _ => {
            let vals: Vec<&str> = match (it["kind"].as_str().unwrap(), it["cls"].as_str().unwrap()) {
                ("bool", _) => vec!["true", "false"],
                ("char", _) => vec!["'x'", "'\u{e9}'", "'\\n'"],
                ("int", _) => vec!["5", "0x10", "7u8"],
                ("float", _) => vec!["1.5", "2e3", "0.25f32"],
                ("bytestr", _) => vec!["b\"x\"", "b'x'"],
                ("str", "true") => vec!["\"true\""],
                ("str", "false") => vec!["\"false\"", "r\"false\""],
                ("str", "digits") => vec!["\"17\"", "\"42\""],
                ("str", "float") => vec!["\"1.5\"", "\"2e3\"", "\"-0.0\"", "\"inf\"", "\"NaN\""],
                ("str", "one_char") => vec!["\"x\"", "\"\u{e9}\"", "r#\"\"\"#"],
                // also a long value whose 64th byte falls inside a multi-byte character (an error that echoes the value must not cut it there)
                ("str", "multi") => vec!["\"xy\"", "\"hello world\"", "r#\"a \"q\" b\"#", "\"xxxxxxxxxxxxxxxxxxxxxxxxxxxxxxxxxxxxxxxxxxxxxxxxxxxxxxxxxxxxxxx\u{e9}\u{e9}\u{e9} tail\""],
                ("str", "empty") => vec!["\"\""],
                // the string as it stands: blanks or a comment around an acceptable text are part of it
                ("str", "padded") => vec!["\" true\"", "\"false \"", "\"\\ttrue\"", "\"/**/true\"", "\" 17\"", "\"42 \"", "\"1.5 \"", "\" 2e3\"", "\"17 // n\""],
                x => panic!("{:?}", x),
            };
            vals.into_iter().map(|v| format!("name = {}", v)).collect()
        }
    }
}

fn parse_whole(text: &str) -> (syn::Meta, Range) {
    let src = format!("#[root({})]\nstruct Demo;", text);
    let di: syn::DeriveInput = syn::parse_str(&src).unwrap();
    let tokens = match &di.attrs[0].meta { syn::Meta::List(l) => l.tokens.clone(), _ => unreachable!() };
    match crate::input::split(tokens).remove(0) { crate::input::Node::Meta(m) => { let r = Range::of(syn::spanned::Spanned::span(&m)); (m, r) } _ => unreachable!() }
}

fn str_contents(m: &syn::Meta) -> Option<String> {
    if let syn::Meta::NameValue(nv) = m { if let syn::Expr::Lit(l) = &nv.value { if let syn::Lit::Str(s) = &l.lit { return Some(s.value()); } } }
    None
}

/// (Ok(rendered value) | Err) for one concrete target, plus the value the property denotes
fn run_target(target: &str, m: &syn::Meta) -> (darling::Result<String>, Option<String>) {
    let s = str_contents(m);
    let lit_txt = if let syn::Meta::NameValue(nv) = m { Some(quote::ToTokens::to_token_stream(&nv.value).to_string()) } else { None };
    match target {
        "bool" => (bool::from_meta(m).map(|v| v.to_string()), match m { syn::Meta::Path(_) => Some("true".into()), _ => s.clone().or(lit_txt).and_then(|t| t.parse::<bool>().ok()).map(|b| b.to_string()) }),
        "char" => (char::from_meta(m).map(|v| v.to_string()), s.clone().filter(|x| x.chars().count() == 1).or_else(|| lit_txt.and_then(|t| syn::parse_str::<syn::LitChar>(&t).ok().map(|c| c.value().to_string())))),
        "String" => (String::from_meta(m), s.clone()),
        "PathBuf" => (std::path::PathBuf::from_meta(m).map(|p| p.to_string_lossy().to_string()), s.clone()),
        "f32" => (f32::from_meta(m).map(|v| format!("{:08x}", v.to_bits())), float_text(m).and_then(|t| t.parse::<f32>().ok()).map(|v| format!("{:08x}", v.to_bits()))),
        "f64" => (f64::from_meta(m).map(|v| format!("{:016x}", v.to_bits())), float_text(m).and_then(|t| t.parse::<f64>().ok()).map(|v| format!("{:016x}", v.to_bits()))),
        t => {
            let nz = t.starts_with("nz_");
            let base = t.trim_start_matches("nz_");
            let want = s.clone().or_else(|| if let syn::Meta::NameValue(nv) = m { if let syn::Expr::Lit(l) = &nv.value { if let syn::Lit::Int(i) = &l.lit { return Some(i.base10_digits().to_string()); } } None } else { None });
            (convert_int(base, nz, m), want)
        }
    }
}

/// the text whose standard parse is the float's denoted value: string contents, or the literal's digits
fn float_text(m: &syn::Meta) -> Option<String> {
    if let Some(s) = str_contents(m) { return Some(s); }
    if let syn::Meta::NameValue(nv) = m {
        if let syn::Expr::Lit(l) = &nv.value {
            match &l.lit { syn::Lit::Float(f) => return Some(f.base10_digits().to_string()), syn::Lit::Int(i) => return Some(i.base10_digits().to_string()), _ => {} }
        }
    }
    None
}

const INTS: [&str; 12] = ["i8", "u8", "i16", "u16", "i32", "u32", "i64", "u64", "i128", "u128", "isize", "usize"];

/// `T::from_value(lit)` for a concrete scalar target (only the verdict matters)
fn value_target(target: &str, lit: &syn::Lit) -> darling::Result<()> {
    use std::num::*;
    macro_rules! v { ($t:ty) => { <$t as FromMeta>::from_value(lit).map(|_| ()) } }
    match target {
        "bool" => v!(bool), "char" => v!(char), "String" => v!(String), "PathBuf" => v!(std::path::PathBuf), "f32" => v!(f32), "f64" => v!(f64),
        "i8" => v!(i8), "u8" => v!(u8), "i16" => v!(i16), "u16" => v!(u16), "i32" => v!(i32), "u32" => v!(u32), "i64" => v!(i64), "u64" => v!(u64),
        "i128" => v!(i128), "u128" => v!(u128), "isize" => v!(isize), "usize" => v!(usize),
        "nz_i8" => v!(NonZeroI8), "nz_u8" => v!(NonZeroU8), "nz_i16" => v!(NonZeroI16), "nz_u16" => v!(NonZeroU16), "nz_i32" => v!(NonZeroI32), "nz_u32" => v!(NonZeroU32),
        "nz_i64" => v!(NonZeroI64), "nz_u64" => v!(NonZeroU64), "nz_i128" => v!(NonZeroI128), "nz_u128" => v!(NonZeroU128), "nz_isize" => v!(NonZeroIsize), "nz_usize" => v!(NonZeroUsize),
        _ => Ok(()),
    }
}

pub fn replay_form(case: &Value) -> (crate::erralg::Outcome, u64) {
    let mut prop = vec![];
    let mut runs = 0;
    let targets: Vec<String> = match case["t"].as_str().unwrap() {
        "int" => INTS.iter().map(|s| s.to_string()).chain(INTS.iter().map(|s| format!("nz_{}", s))).collect(),
        "float" => vec!["f32".into(), "f64".into()],
        t => vec![t.to_string()],
    };
    for text in item_texts(&case["it"]) {
        let (meta, item) = parse_whole(&text);
        for t in &targets {
            runs += 1;
            let r = catch(std::panic::AssertUnwindSafe(|| run_target(t, &meta)));
            let (res, denoted) = match r { Err(p) => { prop.push(format!("{} <- {}: panicked: {}", t, text, p)); continue } Ok(x) => x };
            let exp = case["expect"].as_str().unwrap();
            match res {
                Ok(v) => {
                    if exp == "no" { prop.push(format!("{} <- {}: accepted as `{}`, but the target's standard parsing does not accept this form / literal kind", t, text, v)); }
                    else if denoted.as_ref() != Some(&v) { prop.push(format!("{} <- {}: yields `{}`, the denoted value is {:?}", t, text, v, denoted)); }
                }
                Err(e) => {
                    if exp == "yes" { prop.push(format!("{} <- {}: rejected ({})", t, text, e)); }
                    // the literal-level entry point is public too: its own error has to carry the literal's span
                    if let syn::Meta::NameValue(nv) = &meta { if let syn::Expr::Lit(l) = &nv.value {
                        if let Ok(Err(e2)) = catch(std::panic::AssertUnwindSafe(|| value_target(t, &l.lit))) {
                            if !e2.has_span() { prop.push(format!("{} <- {}: from_value's error `{}` carries no span", t, text, e2)); }
                        }
                    } }
                    match e.explicit_span() {
                        None => prop.push(format!("{} <- {}: error `{}` carries no span", t, text, e)),
                        Some(s) => if !item.contains(&Range::of(s)) { prop.push(format!("{} <- {}: error span outside the item", t, text)); },
                    }
                }
            }
        }
    }
    // a number written with a sign: the literal's kind is the same, so a target that takes no number takes no negative
    // one either; and what a signed number yields does not depend on whether another item follows it (syn hands the
    // value over as one literal when it is last and as a negation otherwise)
    let kind = case["it"]["kind"].as_str().unwrap_or("");
    if case["it"]["form"] != "word" && case["it"]["form"] != "list" && (kind == "int" || kind == "float") {
        let exp = case["expect"].as_str().unwrap();
        for text in item_texts(&case["it"]) {
            let neg = text.replace("name = ", "name = -");
            let last = parse_whole(&neg);
            let followed = parse_whole(&format!("{}, zz = 1", neg));
            for t in &targets {
                let mut seen: Vec<Option<String>> = vec![];
                for (pos, (meta, item)) in [("last", &last), ("followed by another item", &followed)] {
                    runs += 1;
                    let res = match catch(std::panic::AssertUnwindSafe(|| run_target(t, meta))) {
                        Err(p) => { prop.push(format!("{} <- {} ({}): panicked: {}", t, neg, pos, p)); continue }
                        Ok((res, _)) => res,
                    };
                    match &res {
                        Ok(v) => if exp == "no" { prop.push(format!("{} <- {} ({}): accepted as `{}`, but the target's standard parsing does not accept this literal kind", t, neg, pos, v)); },
                        Err(e) => match e.explicit_span() {
                            None => prop.push(format!("{} <- {} ({}): error `{}` carries no span", t, neg, pos, e)),
                            Some(s) => if !item.contains(&Range::of(s)) { prop.push(format!("{} <- {} ({}): error span outside the item", t, neg, pos)); },
                        },
                    }
                    seen.push(res.ok());
                }
                if seen.len() == 2 && seen[0] != seen[1] {
                    prop.push(format!("{} <- {}: {:?} when last in its list, {:?} when another item follows", t, neg, seen[0], seen[1]));
                }
            }
        }
    }
    (crate::erralg::Outcome { prop, model: vec![] }, runs)
}

pub fn replay_concrete(case: &Value) -> crate::erralg::Outcome {
    let mut prop = vec![];
    let v = case["v"].as_i64().unwrap();
    let text = if case["quoted"] == true { format!("\"{}\"", v) } else { v.to_string() };
    let ty = case["t"].as_str().unwrap();
    let nz = case["nz"].as_bool().unwrap();
    if let Some((meta, _)) = parse_item(&text) {
        match catch(std::panic::AssertUnwindSafe(|| convert_int(ty, nz, &meta))) {
            Err(p) => prop.push(format!("{} <- {}: panicked: {}", ty, text, p)),
            Ok(Ok(x)) => if !case["expect"]["ok"].as_bool().unwrap() { prop.push(format!("{}{} <- {}: accepted as {} (out of range)", if nz { "NonZero " } else { "" }, ty, text, x)) } else if x != v.to_string() { prop.push(format!("{} <- {}: yields {}", ty, text, x)) },
            Ok(Err(e)) => { if case["expect"]["ok"].as_bool().unwrap() { prop.push(format!("{}{} <- {}: rejected ({})", if nz { "NonZero " } else { "" }, ty, text, e)) } if !e.has_span() { prop.push(format!("{} <- {}: unspanned error", ty, text)) } }
        }
    }
    crate::erralg::Outcome { prop, model: vec![] }
}

/// Float numerics: texts whose exact value matters (random decimals / exponents / specials, and decimal
/// expansions sitting just beside the midpoint of two adjacent f32 values).
pub fn float_cases(seed: u64, n: usize) -> Vec<String> {
    let mut rng = Rng::new(seed);
    let mut out: Vec<String> = ["0.0", "-0.0", "1e400", "1e-400", "inf", "-inf", "NaN", "infinity", "3.4028235e38", "3.4028236e38", "1.7976931348623157e308",
                                "1.7976931348623159e308", "5e-324", "4.9e-324", "2.4e-324", "0.1", "0.3", "1e23", "9007199254740993", "16777217", ".5", "5.", "1e", "e5", "1_0.5", "0x1p3"]
        .iter().map(|s| s.to_string()).collect();
    for _ in 0..n {
        match rng.below(4) {
            0 => out.push(format!("{}.{}", rng.below(100000), rng.below(100000000))),
            1 => out.push(format!("{}.{}e{}", rng.below(10), rng.below(1000000), rng.below(80) as i64 - 40)),
            2 => out.push(format!("-{}e-{}", rng.below(1000), rng.below(50))),
            _ => {
                // just above / below the midpoint between an f32 and its successor (exactly representable in f64)
                let bits = (rng.next() % 0x7f00_0000) as u32;
                let a = f32::from_bits(bits);
                let b = f32::from_bits(bits + 1);
                if a.is_finite() && b.is_finite() {
                    let mid = (a as f64 + b as f64) / 2.0;
                    let exact = format!("{:.70e}", mid);          // exact decimal expansion (f64 has at most ~767 significant digits; 70 is beyond every f32 midpoint's)
                    let (mant, exp) = exact.split_once('e').unwrap();
                    let mant = mant.trim_end_matches('0');
                    out.push(format!("{}1e{}", mant, exp));       // a hair above the midpoint
                    out.push(format!("{}e{}", mant, exp));        // the midpoint itself (ties to even)
                }
            }
        }
    }
    out
}

pub fn replay_floats(seed: u64, n: usize) -> (Vec<Value>, u64, Vec<String>) {
    let mut prop = vec![];
    let mut runs = 0;
    let texts = float_cases(seed, n);
    for t in &texts {
        let mut spellings = vec![format!("name = \"{}\"", t)];
        // also unquoted when the text is a Rust float literal
        if syn::parse_str::<syn::LitFloat>(t.trim_start_matches('-')).is_ok() {
            spellings.push(format!("name = {}", t));
            // .. and with either suffix, whatever the target: a suffix is spelling, the value is the decimal text
            for suf in ["f32", "f64"] {
                let lit = format!("{}{}", t, suf);
                if syn::parse_str::<syn::LitFloat>(lit.trim_start_matches('-')).is_ok() { spellings.push(format!("name = {}", lit)); }
            }
        }
        for sp in spellings {
            let src = format!("#[root({})]\nstruct Demo;", sp);
            let di: syn::DeriveInput = match syn::parse_str(&src) { Ok(d) => d, Err(_) => continue };
            let tokens = match &di.attrs[0].meta { syn::Meta::List(l) => l.tokens.clone(), _ => continue };
            let meta = match crate::input::split(tokens).into_iter().next() { Some(crate::input::Node::Meta(m)) => m, _ => continue };
            for ty in ["f32", "f64"] {
                runs += 1;
                match catch(std::panic::AssertUnwindSafe(|| run_target(ty, &meta))) {
                    Err(p) => prop.push(json!({"case": {"float": sp, "ty": ty}, "why": [format!("{} <- {}: panicked: {}", ty, sp, p)], "key": format!("float:{}:{}", ty, sp)})),
                    Ok((res, denoted)) => {
                        let why = match (&res, &denoted) {
                            (Ok(v), Some(d)) if v == d => None,
                            (Ok(v), Some(d)) => Some(format!("{} <- {}: bits {} but the standard parse of the text gives {}", ty, sp, v, d)),
                            (Ok(v), None) => Some(format!("{} <- {}: accepted (bits {}) although the standard parser rejects the text", ty, sp, v)),
                            (Err(e), Some(_)) => Some(format!("{} <- {}: rejected ({}) although the standard parser accepts the text", ty, sp, e)),
                            (Err(e), None) => if e.has_span() { None } else { Some(format!("{} <- {}: unspanned error", ty, sp)) },
                        };
                        if let Some(w) = why { prop.push(json!({"case": {"float": sp, "ty": ty}, "why": [w], "key": format!("float:{}:{}", ty, sp)})); }
                    }
                }
            }
        }
    }
    (prop, runs, texts.into_iter().take(3).collect())
}
