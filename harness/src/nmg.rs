//! Binding of spec/NestedMetaGrammar.tla to NestedMeta::parse_meta_list.
use crate::util::*;
use darling::ast::NestedMeta;
use serde_json::{json, Value};

const L: [&str; 13] = ["\"s\"", "5", "-5", "1.5", "'c'", "b'x'", "b\"x\"", "-1.5e3", "0xff_u8", "-1i8", "-0x10", "-1_000", "-2.5f32"];     // negative numbers keep their spelling
const T: [&str; 2] = ["true", "false"];
const I: [&str; 4] = ["foo", "r#type", "_x", "bar2"];
const K: [&str; 4] = ["self", "super", "crate", "Self"];
const R: [&str; 4] = ["fn", "type", "where", "match"];
/// groups whose content is both a valid nested list and a valid expression; second: number of nested items
const G: [(&str, usize); 6] = [("(a)", 1), ("(a = 1)", 1), ("()", 0), ("[a]", 1), ("{ a }", 1), ("(a(b(c(d = 1, \"x\"), e), ::f::g), )", 1)];
const B: [&str; 3] = ["(a b ; =>)", "(= =)", "[1 2]"];
/// non-literal expressions, several with commas that are not inside a delimited group
const V: [&str; 10] = ["x + 1", "!x", "f(1)", "x.y", "|a, b| a + b", "if a { b } else { c }",
                       "HashMap::<String, u32>::new", "x as Either<u8, u16>", "<T as Convert<A, B>>::convert", "a < b"];
const P: [&str; 3] = [";", "$", "@"];

pub fn materialise(ts: &[Value], salt: usize) -> String {
    let mut out = vec![];
    for (i, c) in ts.iter().enumerate() {
        let k = salt + i * 7;
        out.push(match c.as_str().unwrap() {
            "L" => L[k % L.len()].to_string(),
            "T" => T[k % T.len()].to_string(),
            "I" => I[k % I.len()].to_string(),
            "K" => K[k % K.len()].to_string(),
            "R" => R[k % R.len()].to_string(),
            "C2" => "::".to_string(),
            "C" => ",".to_string(),
            "E" => "=".to_string(),
            "G" => G[k % G.len()].0.to_string(),
            "B" => B[k % B.len()].to_string(),
            "V" => V[k % V.len()].to_string(),
            "P" => P[k % P.len()].to_string(),
            x => panic!("class {}", x),
        });
    }
    out.join(" ")
}

fn classify(n: &NestedMeta) -> Value {
    match n {
        NestedMeta::Lit(_) => json!({"k": "lit", "form": ""}),
        NestedMeta::Meta(syn::Meta::Path(_)) => json!({"k": "meta", "form": "word"}),
        NestedMeta::Meta(syn::Meta::List(_)) => json!({"k": "meta", "form": "list"}),
        NestedMeta::Meta(syn::Meta::NameValue(_)) => json!({"k": "meta", "form": "nv"}),
    }
}

/// every list-form item whose group was written as a valid nested list parses recursively
fn nested_ok(items: &[NestedMeta], depth: usize, why: &mut Vec<String>) {
    for it in items {
        if let NestedMeta::Meta(syn::Meta::List(l)) = it {
            let txt = l.tokens.to_string();
            if G.iter().any(|(g, _)| g[1..g.len() - 1].split_whitespace().collect::<String>() == txt.split_whitespace().collect::<String>()) || depth > 0 {
                match NestedMeta::parse_meta_list(l.tokens.clone()) {
                    Ok(inner) => nested_ok(&inner, depth + 1, why),
                    Err(e) => why.push(format!("nested list `{}` (depth {}) rejected: {}", txt, depth + 1, e)),
                }
            }
        }
    }
}

pub fn replay_one(case: &Value, idx: usize) -> (crate::erralg::Outcome, String) {
    let mut prop = vec![];
    let ts = case["ts"].as_array().unwrap();
    // three materialisations per class string
    let mut first_src = String::new();
    for salt in [idx, idx * 3 + 1, idx * 5 + 2] {
        let src = materialise(ts, salt);
        if first_src.is_empty() { first_src = src.clone(); }
        let tokens: proc_macro2::TokenStream = match src.parse() { Ok(t) => t, Err(e) => { prop.push(format!("harness: `{}` does not lex: {}", src, e)); continue } };
        let r = catch(std::panic::AssertUnwindSafe(|| NestedMeta::parse_meta_list(tokens)));
        let r = match r { Err(p) => { prop.push(format!("`{}`: panicked: {}", src, p)); continue } Ok(r) => r };
        if case["unspecified"] == true { continue; }
        let eok = case["expect"]["ok"].as_bool().unwrap();
        match r {
            Err(e) => if eok { prop.push(format!("`{}`: a comma-separated list of literals and meta items was rejected: {}", src, e)); },
            Ok(items) => {
                if !eok { prop.push(format!("`{}`: accepted as {} item(s), but it is not a comma-separated list of literals and meta items", src, items.len())); continue; }
                let got: Vec<Value> = items.iter().map(classify).collect();
                if Value::Array(got.clone()) != case["expect"]["items"] {
                    prop.push(format!("`{}`: items classified as {:?}, expected {}", src, got, case["expect"]["items"]));
                }
                // printing then re-parsing is the identity - and what is printed is what was written
                let printed = quote::quote!(#(#items),*);
                let norm = |t: String| { let mut x: String = t.split_whitespace().collect(); while x.ends_with(',') { x.pop(); } x };
                let written: proc_macro2::TokenStream = src.parse().unwrap();
                if norm(printed.to_string()) != norm(written.to_string()) {
                    prop.push(format!("`{}`: printed as `{}`", src, printed));
                }
                match NestedMeta::parse_meta_list(printed.clone()) {
                    Err(e) => prop.push(format!("`{}`: printed as `{}` which does not re-parse: {}", src, printed, e)),
                    Ok(again) => {
                        let a: Vec<String> = items.iter().map(|i| quote::ToTokens::to_token_stream(i).to_string()).collect();
                        let b: Vec<String> = again.iter().map(|i| quote::ToTokens::to_token_stream(i).to_string()).collect();
                        if a != b { prop.push(format!("`{}`: print/re-parse changed the items: {:?} -> {:?}", src, a, b)); }
                    }
                }
                nested_ok(&items, 0, &mut prop);
            }
        }
    }
    (crate::erralg::Outcome { prop, model: vec![] }, first_src)
}
