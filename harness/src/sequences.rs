//! Binding of spec/Sequences.tla: sequence-valued targets (numeric arrays, vectors of literals, PathList) through every
//! carrier, element sequences drawn by TLC.
use crate::erralg::Outcome;
use crate::util::*;
use darling::ast::NestedMeta;
use darling::FromMeta;
use serde_json::Value;

fn text_of(class: &str) -> &'static str {
    match class {
        "int7" => "7", "int300" => "300", "neg" => "-1", "str" => "\"s\"", "strnum" => "\"9\"", "bool" => "true", "chr" => "'c'", "flt" => "1.5",
        "path" => "a::b", "word" => "w", "nv" => "k = 1", "sub" => "l(x)", x => panic!("class {}", x),
    }
}

fn convert(t: &str, m: &syn::Meta) -> darling::Result<Vec<String>> {
    Ok(match t {
        "VecU8" => <Vec<u8>>::from_meta(m)?.iter().map(|x| x.to_string()).collect(),
        "VecU64" => <Vec<u64>>::from_meta(m)?.iter().map(|x| x.to_string()).collect(),
        "VecLitInt" => <Vec<syn::LitInt>>::from_meta(m)?.iter().map(|x| x.base10_digits().to_string()).collect(),
        "VecLitStr" => <Vec<syn::LitStr>>::from_meta(m)?.iter().map(|x| x.value()).collect(),
        "VecLitBool" => <Vec<syn::LitBool>>::from_meta(m)?.iter().map(|x| x.value.to_string()).collect(),
        "PathList" => darling::util::PathList::from_meta(m)?.to_strings(),
        x => panic!("target {}", x),
    })
}

fn span_of<T: quote::ToTokens>(node: &T) -> (usize, usize, usize, usize) {
    lc(darling::Error::custom("x").with_span(node).span())
}

pub fn replay_one(t: &Templates, case: &Value) -> (Outcome, String) {
    let mut prop = vec![];
    let mut model = vec![];
    let tgt = case["tgt"].as_str().unwrap();
    let car = case["car"].as_str().unwrap();
    let classes: Vec<&str> = case["elems"].as_array().map(|a| a.iter().map(|c| c.as_str().unwrap()).collect()).unwrap_or_default();
    let inner = classes.iter().map(|c| text_of(c)).collect::<Vec<_>>().join(", ");
    let text = match car {
        "list" => format!("f({})", inner),
        "array" => format!("f = [{}]", inner),
        "qarray" => format!("f = {:?}", format!("[{}]", inner)),
        "word" => "f".to_string(),
        "lit_int" => "f = 7".to_string(),
        "lit_str" => "f = \"zz\"".to_string(),
        "lit_bool" => "f = true".to_string(),
        "repeat" => "f = [7; 2]".to_string(),
        "repeat_huge" => "f = [0; 18446744073709551615]".to_string(),
        x => panic!("carrier {}", x),
    };
    let tag = format!("{} <- {}", tgt, text);
    let src = format!("\n#[root({})]\nstruct Demo;", text);
    let di: syn::DeriveInput = match syn::parse_str(&src) { Ok(d) => d, Err(e) => { prop.push(format!("harness: `{}` does not parse: {}", text, e)); return (Outcome { prop, model }, tag) } };
    let tokens = match &di.attrs[0].meta { syn::Meta::List(l) => l.tokens.clone(), _ => unreachable!() };
    let meta = match crate::input::split(tokens).remove(0) { crate::input::Node::Meta(m) => m, _ => unreachable!() };
    // where an error may point
    let item_span = span_of(&meta);
    let value_span = match &meta { syn::Meta::NameValue(nv) => Some(span_of(&nv.value)), _ => None };
    let mut elem_spans: Vec<((usize, usize, usize, usize), Option<(usize, usize, usize, usize)>)> = vec![];
    match (&meta, car) {
        (syn::Meta::List(l), _) => for n in NestedMeta::parse_meta_list(l.tokens.clone()).expect("nested list") {
            let inner = match &n { NestedMeta::Meta(syn::Meta::NameValue(nv)) => Some(span_of(&nv.value)), _ => None };
            elem_spans.push((span_of(&n), inner));
        },
        (syn::Meta::NameValue(nv), "array") => if let syn::Expr::Array(a) = &nv.value { for e in a.elems.iter() { elem_spans.push((span_of(e), None)); } },
        _ => {}
    }
    let r = match catch(std::panic::AssertUnwindSafe(|| convert(tgt, &meta))) {
        Ok(r) => r,
        Err(p) => { prop.push(format!("{}: panicked: {}", tag, p)); return (Outcome { prop, model }, tag) }
    };
    let exp = &case["expect"];
    let want_vs: Vec<String> = exp["vs"].as_array().map(|a| a.iter().map(|v| v.as_str().unwrap().to_string()).collect()).unwrap_or_default();
    let first = exp["first"].as_u64().unwrap() as usize;
    match (&r, exp["ok"] == true) {
        (Ok(vs), true) => if *vs != want_vs { prop.push(format!("{}: value {:?}, the elements in source order are {:?}", tag, vs, want_vs)); },
        (Ok(vs), false) => prop.push(format!("{}: accepted as {:?}", tag, vs)),
        (Err(e), true) => prop.push(format!("{}: rejected: {}", tag, e)),
        (Err(e), false) => {
            if e.len() != 1 { prop.push(format!("{}: {} errors reported, the first unacceptable element is the only one looked at", tag, e.len())); }
            let got = lc(e.span());
            if !e.has_span() { prop.push(format!("{}: unspanned error {}", tag, e)); }
            else if first > 0 && car != "qarray" {
                let (outer, inner) = elem_spans.get(first - 1).cloned().unwrap_or(((0, 0, 0, 0), None));
                if got != outer && Some(got) != inner { prop.push(format!("{}: error `{}` at {:?}, the first unacceptable element (#{}) is at {:?}", tag, e, got, first, outer)); }
            } else if first > 0 && Some(got) != value_span { prop.push(format!("{}: error `{}` at {:?}, the quoted array is at {:?}", tag, e, got, value_span)); }
            else if first == 0 && got != item_span && Some(got) != value_span { prop.push(format!("{}: error `{}` at {:?}, neither the item nor its value", tag, e, got)); }
        }
    }
    // the machine's prediction, exactly
    let m = &case["model"];
    match (&r, m["ok"] == true) {
        (Ok(vs), true) => { let mv: Vec<String> = m["vs"].as_array().map(|a| a.iter().map(|v| v.as_str().unwrap().to_string()).collect()).unwrap_or_default(); if *vs != mv { model.push(format!("{}: value {:?} vs {:?}", tag, vs, mv)); } }
        (Err(e), false) => {
            let me = &m["err"];
            let (k, n) = (me["k"].as_str().unwrap(), me["n"].as_str().unwrap());
            let leaf = e.clone().flatten().into_iter().next().unwrap();
            let text = leaf.to_string();
            if k != "syn" && text != t.render(k, n, "") { model.push(format!("{}: message `{}` vs `{}`", tag, text, t.render(k, n, ""))); }
            let i = me["at"]["i"].as_u64().unwrap() as usize;
            let want = match me["at"]["w"].as_str().unwrap() {
                "item" => Some(item_span), "value" => value_span,
                "elem" => elem_spans.get(i - 1).map(|s| s.0), "elemval" => elem_spans.get(i - 1).and_then(|s| s.1), _ => None };
            if Some(lc(e.span())) != want { model.push(format!("{}: span {:?} vs {:?} ({})", tag, lc(e.span()), want, me["at"])); }
        }
        (Ok(_), false) => model.push(format!("{}: accepted, machine rejects", tag)),
        (Err(e), true) => model.push(format!("{}: rejected ({}), machine accepts", tag, e)),
    }
    (Outcome { prop, model }, tag)
}
