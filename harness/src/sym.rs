//! Symbolic field types for corpus receivers: every conversion is invertible text, so that
//! "the field holds the value supplied under its name, converted by .. then by .." is equality of terms.
use darling::{Error, FromMeta, Result};
use serde_json::{json, Value};
use std::collections::HashMap;

pub trait Proj {
    fn proj(&self) -> Value;
}
/// Values carrying a mark: what the generated Default / default-fn / From<Ident> / from_word / from_none return.
pub trait Marked {
    fn marked(mark: &str, fname: &str) -> Self;
}

#[derive(Debug, Clone, PartialEq)]
pub struct Val(pub String);
impl Default for Val {
    fn default() -> Self { Val("dflt".into()) }
}
impl FromMeta for Val {
    fn from_string(s: &str) -> Result<Self> { Ok(Val(format!("s:{}", s))) }
}
impl Proj for Val { fn proj(&self) -> Value { json!(self.0) } }
impl Marked for Val { fn marked(m: &str, f: &str) -> Self { Val(format!("{}.{}", m, f)) } }

impl<T: Proj> Proj for Option<T> {
    fn proj(&self) -> Value { match self { Some(x) => json!([x.proj()]), None => json!([]) } }
}
impl<T: Marked> Marked for Option<T> { fn marked(m: &str, f: &str) -> Self { Some(T::marked(m, f)) } }
impl<T: Proj> Proj for Vec<T> {
    fn proj(&self) -> Value { Value::Array(self.iter().map(|x| x.proj()).collect()) }
}
impl<T: Marked> Marked for Vec<T> { fn marked(m: &str, f: &str) -> Self { vec![T::marked(m, f)] } }
impl Proj for u8 { fn proj(&self) -> Value { json!(format!("u:{}", self)) } }
impl Marked for u8 {
    fn marked(m: &str, _f: &str) -> Self { match m { "cd" => 201, "fd" => 202, "cfn" => 203, _ => 204 } }
}
impl Proj for bool { fn proj(&self) -> Value { json!(format!("b:{}", self)) } }
impl Marked for bool { fn marked(_m: &str, _f: &str) -> Self { true } }

/// String-keyed map that remembers insertion order is not available from HashMap; the projection
/// sorts by key and the comparison side does the same.
impl Proj for HashMap<String, Val> {
    fn proj(&self) -> Value {
        let mut v: Vec<(&String, &Val)> = self.iter().collect();
        v.sort_by(|a, b| a.0.cmp(b.0));
        let mut out = vec![json!("#map")];
        out.extend(v.into_iter().map(|(k, x)| json!([k, x.proj()])));
        Value::Array(out)
    }
}
impl Marked for HashMap<String, Val> {
    fn marked(m: &str, f: &str) -> Self {
        let mut h = HashMap::new();
        h.insert(m.to_string(), Val::marked(m, f));
        h
    }
}
impl<T: Proj> Proj for Box<T> { fn proj(&self) -> Value { (**self).proj() } }
impl<T: Marked> Marked for Box<T> { fn marked(m: &str, f: &str) -> Self { Box::new(T::marked(m, f)) } }

// user-supplied converters of the corpus (symbolic wrappers)
pub fn w_val(m: &syn::Meta) -> Result<Val> {
    Val::from_meta(m).map(|v| Val(format!("w({})", v.0)))
}
pub fn w_opt(m: &syn::Meta) -> Result<Option<Val>> {
    <Option<Val>>::from_meta(m).map(|o| o.map(|v| Val(format!("w({})", v.0))))
}
pub fn m_val(v: Val) -> Val { Val(format!("m({})", v.0)) }
pub fn t_val(v: Val) -> Result<Val> {
    if v.0 == "s:bad" || v.0 == "w(s:bad)" { Err(Error::custom("t-rejects")) } else { Ok(Val(format!("t({})", v.0))) }
}
pub fn cm(v: &mut Val) { v.0 = format!("cm({})", v.0); }
pub fn ct(v: &mut Val) { v.0 = format!("ct({})", v.0); }

impl Proj for darling::util::Flag { fn proj(&self) -> Value { json!(format!("f:{}", self.is_present())) } }
impl Marked for darling::util::Flag { fn marked(_m: &str, _f: &str) -> Self { darling::util::Flag::default() } }
