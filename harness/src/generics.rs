//! Binding of spec/Generics.tla: ast::Generics / ast::GenericParam / FromGenerics / FromGenericParam and the `generics`
//! magic member, over parameter lists drawn by TLC.
use crate::erralg::Outcome;
use crate::util::*;
use darling::ast::{GenericParam, Generics};
use darling::{FromDeriveInput, FromGenerics, FromTypeParam};
use serde_json::Value;

#[derive(Debug, Clone, FromTypeParam)]
#[darling(attributes(tp))]
pub struct TP {
    pub ident: syn::Ident,
    #[darling(default)]
    pub x: u8,
}

#[derive(Debug, FromDeriveInput)]
#[darling(attributes(r))]
pub struct ViaDerived { pub generics: Generics<GenericParam<TP>>, #[darling(default)] pub y: u8 }
#[derive(Debug, FromDeriveInput)]
#[darling(attributes(r))]
pub struct ViaIdent { pub generics: Generics<GenericParam<syn::Ident>>, #[darling(default)] pub y: u8 }
#[derive(Debug, FromDeriveInput)]
#[darling(attributes(r))]
pub struct ViaSyn { pub generics: Generics<syn::GenericParam>, #[darling(default)] pub y: u8 }

#[derive(Debug, FromDeriveInput)]
#[darling(attributes(r))]
pub struct ViaResultDerived { pub generics: darling::Result<Generics<GenericParam<TP>>>, #[darling(default)] pub y: u8 }
#[derive(Debug, FromDeriveInput)]
#[darling(attributes(r))]
pub struct ViaResultIdent { pub generics: darling::Result<Generics<GenericParam<syn::Ident>>>, #[darling(default)] pub y: u8 }

/// (kind, name of a type parameter, its `x`) per converted parameter; has-where; names type_params() yields
type Seen = (Vec<(String, String, u8)>, bool, Vec<String>);

fn see_gp<T>(g: &Generics<GenericParam<T>>, name: impl Fn(&T) -> (String, u8)) -> Seen {
    let ps = g.params.iter().map(|p| match p {
        GenericParam::Type(t) => { let (n, x) = name(t); ("type".to_string(), n, x) }
        GenericParam::Lifetime(_) => ("lifetime".to_string(), String::new(), 0),
        GenericParam::Const(_) => ("const".to_string(), String::new(), 0),
    }).collect();
    (ps, g.where_clause.is_some(), g.type_params().map(|t| name(t).0).collect())
}
fn see_syn(g: &Generics<syn::GenericParam>) -> Seen {
    let ps = g.params.iter().map(|p| match p {
        syn::GenericParam::Type(t) => ("type".to_string(), t.ident.to_string(), 0),
        syn::GenericParam::Lifetime(_) => ("lifetime".to_string(), String::new(), 0),
        syn::GenericParam::Const(_) => ("const".to_string(), String::new(), 0),
    }).collect();
    (ps, g.where_clause.is_some(), g.type_params().map(|t| t.ident.to_string()).collect())
}

pub fn replay_one(case: &Value) -> (Outcome, String) {
    let mut prop = vec![];
    let mut model = vec![];
    let recv = case["recv"].as_str().unwrap();
    let via = case["via"].as_str().unwrap();
    let kinds: Vec<&str> = case["params"].as_array().map(|a| a.iter().map(|c| c.as_str().unwrap()).collect()).unwrap_or_default();
    let wh_kind = case["wh"].as_str().unwrap_or("none");
    let wh = wh_kind != "none";
    let other = case["other"] == true;
    // one parameter per line, so that a span names its parameter
    let mut src = String::from("\n");
    if other { src.push_str("#[r(y = \"bad\")] "); }
    src.push_str("struct Demo<\n");
    for (i, k) in kinds.iter().enumerate() {
        let n = i + 1;
        src.push_str(&match *k {
            "tok" => format!("#[tp(x = {})] T{}: Clone,\n", n, n),
            "tplain" => format!("T{} = u8,\n", n),
            "tbad" => format!("#[tp(x = \"oops\")] T{},\n", n),
            "tbad2" => format!("#[tp(x = \"oops\", zzz)] T{},\n", n),
            "lt" => format!("'l{},\n", n),
            "cn" => format!("const N{}: usize,\n", n),
            x => panic!("kind {}", x),
        });
    }
    src.push_str(">");
    let first_type = kinds.iter().position(|k| k.starts_with('t')).map(|i| i + 1);
    if wh_kind == "empty" { src.push_str(" where"); }      // a where clause without predicates is still the input's where clause
    else if wh { src.push_str(&match first_type { Some(i) => format!(" where T{}: Copy", i), None => " where u8: Copy".to_string() }); }
    src.push_str(";");
    let tag = format!("{}/{} <- {}", recv, via, src.replace('\n', " ").trim());
    let di: syn::DeriveInput = match syn::parse_str(&src) { Ok(d) => d, Err(e) => { prop.push(format!("harness: `{}` does not parse: {}", src, e)); return (Outcome { prop, model }, tag) } };
    let held_err = std::cell::Cell::new(false);
    let run = || -> darling::Result<Seen> {
        let tp = |t: &TP| (t.ident.to_string(), t.x);
        let id = |t: &syn::Ident| (t.to_string(), 0u8);
        Ok(match (recv, via) {
            ("derived", "direct") => see_gp(&Generics::<GenericParam<TP>>::from_generics(&di.generics)?, tp),
            ("ident", "direct") => see_gp(&Generics::<GenericParam<syn::Ident>>::from_generics(&di.generics)?, id),
            ("syn", "direct") => see_syn(&Generics::<syn::GenericParam>::from_generics(&di.generics)?),
            ("derived", "rmember") => match ViaResultDerived::from_derive_input(&di)?.generics { Ok(g) => see_gp(&g, tp), Err(_) => { held_err.set(true); (vec![], wh, vec![]) } },
            ("ident", "rmember") => match ViaResultIdent::from_derive_input(&di)?.generics { Ok(g) => see_gp(&g, id), Err(_) => { held_err.set(true); (vec![], wh, vec![]) } },
            ("syn", "rmember") => see_syn(&ViaSyn::from_derive_input(&di)?.generics),
            ("derived", _) => see_gp(&ViaDerived::from_derive_input(&di)?.generics, tp),
            ("ident", _) => see_gp(&ViaIdent::from_derive_input(&di)?.generics, id),
            ("syn", _) => see_syn(&ViaSyn::from_derive_input(&di)?.generics),
            x => panic!("{:?}", x),
        })
    };
    let r = match catch(std::panic::AssertUnwindSafe(run)) { Ok(r) => r, Err(p) => { prop.push(format!("{}: panicked: {}", tag, p)); return (Outcome { prop, model }, tag) } };
    let exp = &case["expect"];
    let want_kinds: Vec<&str> = exp["kinds"].as_array().map(|a| a.iter().map(|v| v.as_str().unwrap()).collect()).unwrap_or_default();
    let types: Vec<usize> = exp["types"].as_array().map(|a| a.iter().map(|v| v.as_u64().unwrap() as usize).collect()).unwrap_or_default();
    let bad: Vec<usize> = exp["bad"].as_array().map(|a| a.iter().map(|v| v.as_u64().unwrap() as usize).collect()).unwrap_or_default();
    // parameter i sits on source line i + 2; the receiver's own attribute on line 2
    match (&r, exp["ok"] == true) {
        (Ok(_), true) if held_err.get() => {
            // the Result-wrapped member holds the failure; the receiver itself is built
            if exp["inner_ok"] == true { prop.push(format!("{}: the Result-wrapped generics member holds an error although every parameter converts", tag)); }
        }
        (Ok(_), true) if via == "rmember" && exp["inner_ok"] == false => prop.push(format!("{}: the Result-wrapped generics member holds a value although a parameter fails", tag)),
        (Ok((ps, w, tps)), true) => {
            let got: Vec<&str> = ps.iter().map(|p| p.0.as_str()).collect();
            if got != want_kinds { prop.push(format!("{}: parameter kinds {:?}, declared {:?}", tag, got, want_kinds)); }
            for (i, p) in ps.iter().enumerate() {
                if p.0 == "type" {
                    if p.1 != format!("T{}", i + 1) { prop.push(format!("{}: parameter #{} converted from `{}`", tag, i + 1, p.1)); }
                    if recv == "derived" && p.2 != (if kinds[i] == "tok" { (i + 1) as u8 } else { 0 }) { prop.push(format!("{}: parameter #{} has x = {}", tag, i + 1, p.2)); }
                }
            }
            if *w != wh { prop.push(format!("{}: where clause {} although {}", tag, if *w { "kept" } else { "dropped" }, if wh { "present" } else { "absent" })); }
            let want_t: Vec<String> = types.iter().map(|i| format!("T{}", i)).collect();
            if *tps != want_t { prop.push(format!("{}: type_params() yields {:?}, the type parameters are {:?}", tag, tps, want_t)); }
        }
        (Ok(_), false) => prop.push(format!("{}: accepted", tag)),
        (Err(e), true) => prop.push(format!("{}: rejected: {}", tag, e)),
        (Err(e), false) => {
            let leaves: Vec<darling::Error> = e.clone().flatten().into_iter().collect();
            let lines: Vec<usize> = leaves.iter().map(|l| l.span().start().line).collect();
            for (l, ln) in leaves.iter().zip(&lines) {
                // the attribute layer is reported first; the parameters only when it is clean
                let fits = if other { *ln == 2 } else { bad.iter().any(|b| *ln == b + 2) };
                if !fits { prop.push(format!("{}: error `{}` on line {}, which holds no mistake", tag, l, ln)); }
            }
            if other && !lines.contains(&2) { prop.push(format!("{}: the receiver's own mistake is not reported", tag)); }
            if let (false, Some(b)) = (other, bad.first()) { if !lines.contains(&(b + 2)) { prop.push(format!("{}: the first failing parameter (#{}) is not reported", tag, b)); } }
        }
    }
    let m = &case["model"];
    match (&r, m["ok"] == true) {
        (Ok(_), true) => {}
        (Err(e), false) => {
            let n = m["nerr"].as_u64().unwrap() as usize;
            if e.len() != n { model.push(format!("{}: {} errors, machine says {}", tag, e.len(), n)); }
            let at = m["at"].as_u64().unwrap() as usize;
            let lines: Vec<usize> = e.clone().flatten().into_iter().map(|l| l.span().start().line).collect();
            if lines.iter().any(|l| *l != at + 2) { model.push(format!("{}: errors on lines {:?}, machine stops at parameter {}", tag, lines, at)); }
        }
        (Ok(_), false) => model.push(format!("{}: accepted, machine rejects", tag)),
        (Err(e), true) => model.push(format!("{}: rejected ({}), machine accepts", tag, e)),
    }
    (Outcome { prop, model }, tag)
}
